module clockpass

go 1.22.0
