// clock instrumenter prototype: rewrites time.Now()/time.Since()/time.Until()/metav1.Now() in non-test files.
package main

import (
	"bytes"
	"fmt"
	"go/ast"
	"go/parser"
	"go/printer"
	"go/token"
	"os"
	"path/filepath"
	"strconv"
	"strings"
)

const clockPath = "github.com/DataDog/extendeddaemonset/pkg/verifclock"

func main() {
	root := os.Args[1]
	total := 0
	_ = filepath.Walk(root, func(path string, info os.FileInfo, err error) error {
		if err != nil {
			return err
		}
		if info.IsDir() {
			if info.Name() == "verifclock" || info.Name() == ".git" {
				return filepath.SkipDir
			}
			return nil
		}
		if !strings.HasSuffix(path, ".go") || strings.HasSuffix(path, "_test.go") {
			return nil
		}
		n, err := rewrite(path)
		if err != nil {
			fmt.Fprintln(os.Stderr, "ERR", path, err)
			os.Exit(2)
		}
		if n > 0 {
			fmt.Printf("rewrote %d site(s) in %s\n", n, strings.TrimPrefix(path, root))
		}
		total += n
		return nil
	})
	fmt.Println("total", total)
}

func rewrite(path string) (int, error) {
	fset := token.NewFileSet()
	f, err := parser.ParseFile(fset, path, nil, parser.ParseComments)
	if err != nil {
		return 0, err
	}
	timeName, metaName := "", ""
	for _, imp := range f.Imports {
		p, _ := strconv.Unquote(imp.Path.Value)
		name := ""
		if imp.Name != nil {
			name = imp.Name.Name
		}
		switch p {
		case "time":
			if name == "" {
				name = "time"
			}
			timeName = name
		case "k8s.io/apimachinery/pkg/apis/meta/v1":
			if name == "" {
				name = "v1"
			}
			metaName = name
		}
	}
	if timeName == "" && metaName == "" {
		return 0, nil
	}
	n := 0
	ast.Inspect(f, func(node ast.Node) bool {
		call, ok := node.(*ast.CallExpr)
		if !ok {
			return true
		}
		sel, ok := call.Fun.(*ast.SelectorExpr)
		if !ok {
			return true
		}
		id, ok := sel.X.(*ast.Ident)
		if !ok || id.Obj != nil { // id.Obj != nil => refers to a local/package object, not an import
			return true
		}
		switch {
		case id.Name == timeName && (sel.Sel.Name == "Now" || sel.Sel.Name == "Since" || sel.Sel.Name == "Until"):
			id.Name = "verifclock"
			n++
		case id.Name == metaName && sel.Sel.Name == "Now" && len(call.Args) == 0:
			id.Name = "verifclock"
			sel.Sel.Name = "MetaNow"
			n++
		}
		return true
	})
	if n == 0 {
		return 0, nil
	}
	var buf bytes.Buffer
	if err := printer.Fprint(&buf, fset, f); err != nil {
		return 0, err
	}
	src := buf.String()
	// add import + keep-alive for possibly now-unused imports
	extra := "\nimport verifclock \"" + clockPath + "\"\n"
	if timeName != "" {
		extra += "var _ " + timeName + ".Duration\n"
	}
	if metaName != "" {
		extra += "var _ " + metaName + ".Time\n"
	}
	// append keep-alives at end, import right after the last import decl: simplest is a second import decl after package clause
	idx := strings.Index(src, "\nimport ")
	if idx < 0 {
		return 0, fmt.Errorf("no import decl")
	}
	src = src[:idx] + "\nimport verifclock \"" + clockPath + "\"\n" + src[idx:] + strings.TrimPrefix(extra, "\nimport verifclock \""+clockPath+"\"\n")
	return n, os.WriteFile(path, []byte(src), 0o644)
}
