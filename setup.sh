#!/bin/bash
# Run once after a fresh restore, offline: warms the Go build cache for the plain and the
# -race configuration of the harness so that checks rebuild in seconds.
set -u
cd /verif || exit 1
source lib/build.sh
SCR=$(mktemp -d "${TMPDIR:-/tmp}/vh-setup.XXXXXX") || exit 1
trap 'rm -rf "$SCR"' EXIT
vh_build "$SCR" race || { echo "setup: build failed"; exit 1; }
"$SCR/vh" list >/dev/null || exit 1
echo "setup ok"
