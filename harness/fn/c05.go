package fn

import (
	"fmt"
	"strings"
	"time"

	corev1 "k8s.io/api/core/v1"
	metav1 "k8s.io/apimachinery/pkg/apis/meta/v1"

	v1 "github.com/DataDog/extendeddaemonset/api/v1alpha1"

	"vh/core"
	"vh/kit"
	"vh/simapi"
)

// C05 engine: exhaustive promotion lattice, one real EDS Reconcile per point.
type C05 struct{}

var (
	c05Strat   = []string{"none", "auto", "manual", "manual-leftover-duration"}
	c05Age     = []time.Duration{-time.Second, 0, time.Second} // age - duration
	c05NRD     = []string{"unset", "zero", "pos"}
	c05Restart = []string{"none", "recent", "old", "exact", "first-old-last-recent"}
	c05Pause   = []string{"none", "ann", "cond", "ann-false", "ann-after-resume"}
	c05Bool    = []bool{false, true}
	c05Valid   = []string{"absent", "this", "other"}
)

const c05Dur = 10 * time.Minute
const c05NR = 5 * time.Minute

func (e *C05) Name() string { return "fn.c05" }
func (e *C05) Rule() string {
	return "full product: strategy {absent,auto,manual,manual with the duration an earlier auto-mode defaulting left in the spec} x age-duration {-1s,0,+1s} x noRestartsDuration {unset,0,5m} x last restart {none, 1m ago, 6m ago, exactly 5m ago, first 9m ago + latest 1m ago} x pause {none, annotation, RS condition, annotation=false, annotation after an earlier resume (condition False left on the replica set)} x unpaused {no,yes} x canary-valid {absent,this,other} x failed {no,yes} x active RS {present,missing}; each point is a prepared store given one real EDS Reconcile at an exact virtual instant (exhaustive); non-trivial = points with a canary strategy and the active RS present"
}
func (e *C05) n() int {
	return len(c05Strat) * len(c05Age) * len(c05NRD) * len(c05Restart) * len(c05Pause) * 2 * len(c05Valid) * 2 * 2
}
func (e *C05) Cases(string, int64) int { return 48 }
func (e *C05) Floors(string) map[string]int {
	return map[string]int{"C05.points": 12000, "C05.promoted": 3000, "C05.not-promoted": 1500, "C05.either": 50}
}

func (e *C05) Run(ctx *core.Ctx, idx int) {
	n := e.n()
	for p := idx; p < n; p += 48 {
		e.point(ctx, p)
	}
}

func (e *C05) point(ctx *core.Ctx, p int) {
	pointID := p
	pick := func(n int) int { v := p % n; p /= n; return v }
	strat := c05Strat[pick(len(c05Strat))]
	ageD := c05Age[pick(len(c05Age))]
	nrd := c05NRD[pick(len(c05NRD))]
	lastRestart := c05Restart[pick(len(c05Restart))]
	pause := c05Pause[pick(len(c05Pause))]
	unp := c05Bool[pick(2)]
	valid := c05Valid[pick(len(c05Valid))]
	failed := c05Bool[pick(2)]
	activePresent := c05Bool[pick(2)]

	now := kit.T0
	simapi.SetNow(now)
	s := simapi.NewStore()
	age := c05Dur + ageD
	var canary *v1.ExtendedDaemonSetSpecStrategyCanary
	if strat != "none" {
		canary = &v1.ExtendedDaemonSetSpecStrategyCanary{Replicas: kit.IS(1)}
		if strat == "auto" {
			canary.ValidationMode = v1.ExtendedDaemonSetSpecStrategyCanaryValidationModeAuto
			canary.Duration = &metav1.Duration{Duration: c05Dur}
			switch nrd {
			case "zero":
				canary.NoRestartsDuration = &metav1.Duration{}
			case "pos":
				canary.NoRestartsDuration = &metav1.Duration{Duration: c05NR}
			}
		} else {
			canary.ValidationMode = v1.ExtendedDaemonSetSpecStrategyCanaryValidationModeManual
			if strat == "manual-leftover-duration" {
				// the spec was defaulted in auto mode (duration written into it), then the user switched the
				// mode to manual: whatever the controller makes of that spec, time must not promote
				canary.Duration = &metav1.Duration{Duration: c05Dur}
			}
		}
	}
	eds := kit.NewEDS("ns", "foo", "B", canary)
	if strat == "auto" && nrd == "unset" {
		eds.Spec.Strategy.Canary.NoRestartsDuration = nil
	}
	eds.UID = "uid-eds"
	rsA := kit.NewRS(s, eds, "foo-a", kit.Tpl("A"), now.Add(-24*time.Hour))
	rsA.Status = v1.ExtendedDaemonSetReplicaSetStatus{Status: "active", Desired: 3, Current: 3, Ready: 3, Available: 3}
	rsB := kit.NewRS(s, eds, "foo-b", kit.Tpl("B"), now.Add(-age))
	rsB.Status = v1.ExtendedDaemonSetReplicaSetStatus{Status: "canary", Desired: 1, Current: 1, Ready: 1, Available: 1}
	var lastRestartT time.Time
	switch lastRestart {
	case "recent":
		lastRestartT = now.Add(-time.Minute)
	case "old":
		lastRestartT = now.Add(-6 * time.Minute)
	case "exact":
		lastRestartT = now.Add(-c05NR)
	case "first-old-last-recent":
		// several restarts: the condition became true long ago, its last update (latest restart) is recent
		lastRestartT = now.Add(-time.Minute)
	}
	if !lastRestartT.IsZero() {
		trans := lastRestartT
		if lastRestart == "first-old-last-recent" {
			trans = now.Add(-9 * time.Minute)
		}
		rsB.Status.Conditions = append(rsB.Status.Conditions, v1.ExtendedDaemonSetReplicaSetCondition{Type: v1.ConditionTypePodRestarting, Status: corev1.ConditionTrue, LastTransitionTime: metav1.NewTime(trans), LastUpdateTime: metav1.NewTime(lastRestartT)})
	}
	switch pause {
	case "cond":
		rsB.Status.Conditions = append(rsB.Status.Conditions, v1.ExtendedDaemonSetReplicaSetCondition{Type: v1.ConditionTypeCanaryPaused, Status: corev1.ConditionTrue, Reason: "ImagePullBackOff"})
	case "ann":
		eds.Annotations[v1.ExtendedDaemonSetCanaryPausedAnnotationKey] = "true"
	case "ann-after-resume":
		// paused by annotation once more after an earlier pause was lifted: the replica set still carries the
		// Canary-Paused condition with status False that the resume left behind
		eds.Annotations[v1.ExtendedDaemonSetCanaryPausedAnnotationKey] = "true"
		rsB.Status.Conditions = append(rsB.Status.Conditions, v1.ExtendedDaemonSetReplicaSetCondition{Type: v1.ConditionTypeCanaryPaused, Status: corev1.ConditionFalse, Reason: "ImagePullBackOff", LastTransitionTime: metav1.NewTime(now.Add(-3 * time.Minute)), LastUpdateTime: metav1.NewTime(now.Add(-3 * time.Minute))})
	case "ann-false":
		eds.Annotations[v1.ExtendedDaemonSetCanaryPausedAnnotationKey] = "false"
	}
	if unp {
		eds.Annotations[v1.ExtendedDaemonSetCanaryUnpausedAnnotationKey] = "true"
	}
	switch valid {
	case "this":
		eds.Annotations[v1.ExtendedDaemonSetCanaryValidAnnotationKey] = "foo-b"
	case "other":
		eds.Annotations[v1.ExtendedDaemonSetCanaryValidAnnotationKey] = "foo-zzz"
	}
	if failed {
		rsB.Status.Conditions = append(rsB.Status.Conditions, v1.ExtendedDaemonSetReplicaSetCondition{Type: v1.ConditionTypeCanaryFailed, Status: corev1.ConditionTrue, LastTransitionTime: metav1.NewTime(now.Add(-time.Minute)), LastUpdateTime: metav1.NewTime(now.Add(-time.Minute))})
	}
	eds.Status.ActiveReplicaSet = "foo-a"
	eds.Status.Desired = 3
	if strat != "none" {
		eds.Status.Canary = &v1.ExtendedDaemonSetStatusCanary{ReplicaSet: "foo-b", Nodes: []string{"n0"}}
	}
	s.Inject(eds)
	if activePresent {
		if ctx.Rand.Intn(3) == 0 {
			// the active replica set is being deleted but still exists (deletionTimestamp set, a
			// finalizer pending: foreground deletion): it has not "ceased to exist", the rule applies
			dt := metav1.NewTime(now.Add(-5 * time.Second))
			rsA.DeletionTimestamp = &dt
			rsA.Finalizers = []string{"foregroundDeletion"}
			ctx.Count("C05.points-with-terminating-active")
		}
		s.Inject(rsA)
	}
	s.Inject(rsB)
	for i := 0; i < 4; i++ {
		s.Inject(kit.Node(fmt.Sprintf("n%d", i), nil))
	}
	ctl := kit.NewControllers(s, kit.CtlOpts{})
	// one point in five of those that are not paused: the user pauses the canary between the reconcile's read and its
	// status write. Whatever the reconcile does about the refused write, it must not publish a promotion that elapsed
	// time alone justified over the object that now says "paused".
	overtaken := pause == "none" && pointID%5 == 0
	if overtaken {
		done := false
		ctl.CEDS.Hook = func(phase string, c *simapi.Call) {
			if phase == "pre" && !done && c.Kind == simapi.KindEDS && c.Verb == "status-update" {
				done = true
				s.Mutate(simapi.KindEDS, "ns", "foo", func(o clientObject) {
					a := o.GetAnnotations()
					if a == nil {
						a = map[string]string{}
					}
					a[v1.ExtendedDaemonSetCanaryPausedAnnotationKey] = "true"
					o.SetAnnotations(a)
				})
			}
		}
		pause = "ann"
		ctx.Count("C05.points-overtaken-by-a-pause")
	}
	out := ctl.Reconcile("eds", "ns", "foo", "fn")
	ctl.CEDS.Hook = nil
	ctx.Count("C05.points")
	ctx.Count("evaluations")
	desc := map[string]any{"strategy": strat, "age-duration": ageD.String(), "noRestartsDuration": nrd, "lastRestart": lastRestart, "pause": pause, "unpaused": unp, "valid": valid, "failed": failed, "activePresent": activePresent, "pausedBetweenReadAndWrite": overtaken}
	attrs := map[string]string{"overtaken": fmt.Sprint(overtaken), "strategy": strat, "failed": fmt.Sprint(failed), "paused": fmt.Sprint(pause == "ann" || pause == "cond" || pause == "ann-after-resume"), "valid": valid, "elapsed": fmt.Sprint(ageD > 0), "activePresent": fmt.Sprint(activePresent)}
	if out.Panic != "" {
		attrs["panic"] = out.Panic
		ctx.Violation("C05", "C05.no-panic", attrs, desc)
		return
	}
	after := kit.GetEDS(s, "ns", "foo")
	switched := after.Status.ActiveReplicaSet == "foo-b"
	if strat != "none" && activePresent {
		ctx.Distinct("nontrivial", fmt.Sprint(desc))
	}
	ctx.Distinct("points", fmt.Sprint(desc))

	// promotionAllowed(view, now): must / must-not / either
	isPaused := pause == "ann" || pause == "cond" || pause == "ann-after-resume"
	allowed, either := false, false
	rule := "C05.promotion"
	switch {
	case !activePresent:
		allowed = true
	case strat == "none":
		allowed = true
	case valid == "this":
		allowed = true
	case strings.HasPrefix(strat, "manual"):
		rule = "C05.manual-never-by-time"
	case failed:
		rule = "C05.failed-never-by-time"
	case isPaused:
		rule = "C05.paused-never-by-time"
	default: // auto, not paused, not failed
		elapsed := ageD > 0
		if ageD == 0 {
			either = true
		}
		restartOK := true
		if nrd != "unset" && lastRestart != "none" {
			nr := time.Duration(0)
			if nrd == "pos" {
				nr = c05NR
			}
			since := now.Sub(lastRestartT)
			restartOK = since > nr
			if since == nr {
				either = true
				restartOK = true
			}
		}
		allowed = elapsed && restartOK
		if either && !(ageD >= 0 && restartOK) {
			either = false // another conjunct is definitely false: must not
		}
	}
	if either {
		ctx.Count("C05.either")
	}
	if switched {
		ctx.Count("C05.promoted")
	} else {
		ctx.Count("C05.not-promoted")
	}
	if switched && !allowed && !either {
		ctx.Violation("C05", rule, attrs, desc)
	}
	// adopt: recorded active replica set missing => the matching one is adopted directly
	if !activePresent && !switched && out.Err == nil {
		ctx.Violation("C05", "C05.adopt", attrs, desc)
	}
	// the converse for the unambiguous cases: explicit validation and no-canary promote at once
	if activePresent && !failed && (strat == "none" || valid == "this") && !switched && out.Err == nil {
		ctx.Violation("C05", "C05.explicit-promotion-ignored", attrs, desc)
	}
	if pointID%977 == 0 {
		desc["promoted"] = switched
		ctx.Sample(desc)
	}
}
