package fn

import (
	"encoding/binary"
	"fmt"
	"time"

	metav1 "k8s.io/apimachinery/pkg/apis/meta/v1"
	"k8s.io/apimachinery/pkg/util/intstr"

	v1 "github.com/DataDog/extendeddaemonset/api/v1alpha1"

	"vh/core"
	"vh/kit"
)

// Coverage-guided part of C16: a byte string is decoded into a strategy whose values are not
// confined to the boundary lattice (raw int32 / duration / percent strings), and judged by the
// same oracles as the lattice (judgePure) and the life-cycle scenario (runScenario).

type byteSrc struct {
	b []byte
	i int
}

func (s *byteSrc) byte() byte {
	if s.i >= len(s.b) {
		return 0
	}
	v := s.b[s.i]
	s.i++
	return v
}
func (s *byteSrc) u32() uint32 {
	var x [4]byte
	for k := range x {
		x[k] = s.byte()
	}
	return binary.LittleEndian.Uint32(x[:])
}

func (s *byteSrc) ios() *intstr.IntOrString {
	switch s.byte() % 8 {
	case 0, 1:
		return nil
	case 2:
		return kit.IS(int(int32(s.u32())))
	case 3:
		return kit.IS(int(int8(s.byte())))
	case 4:
		return kit.PS(fmt.Sprintf("%d%%", int(int8(s.byte()))))
	case 5:
		return kit.PS(fmt.Sprintf("%d%%", int32(s.u32())))
	case 6:
		n := int(s.byte() % 6)
		raw := make([]byte, n)
		for k := range raw {
			raw[k] = "0123456789%-+ .x"[s.byte()%16]
		}
		return kit.PS(string(raw))
	default:
		return kit.IS(int(s.byte() % 4))
	}
}

func (s *byteSrc) dur() *metav1.Duration {
	mk := func(d time.Duration) *metav1.Duration { return &metav1.Duration{Duration: d} }
	switch s.byte() % 8 {
	case 0, 1:
		return nil
	case 2:
		return mk(0)
	case 3:
		return mk(time.Duration(int8(s.byte())) * time.Second)
	case 4:
		return mk(time.Duration(int32(s.u32())) * time.Millisecond)
	case 5:
		return mk(time.Duration(int64(s.u32())<<32 | int64(s.u32())))
	case 6:
		return mk(time.Duration(s.byte()%90) * time.Minute)
	default:
		return mk(time.Duration(1+s.byte()%3) * time.Nanosecond)
	}
}

func (s *byteSrc) i32() *int32 {
	var v int32
	switch s.byte() % 6 {
	case 0, 1:
		return nil
	case 2:
		v = int32(s.u32())
	case 3:
		v = int32(int8(s.byte()))
	case 4:
		v = 0
	default:
		v = int32(s.byte() % 8)
	}
	return &v
}

func (s *byteSrc) boolp() *bool {
	switch s.byte() % 3 {
	case 0:
		return nil
	case 1:
		t := true
		return &t
	}
	f := false
	return &f
}

// C16FromBytes decodes a fuzz input into a spec and the controller-level default mode.
func C16FromBytes(data []byte) (*v1.ExtendedDaemonSetSpec, bool) {
	s := &byteSrc{b: data}
	flags := s.byte()
	spec := &v1.ExtendedDaemonSetSpec{}
	spec.Template = kit.Tpl("A")
	if flags&1 != 0 {
		spec.Template.Name = "named"
	}
	spec.Strategy.RollingUpdate = v1.ExtendedDaemonSetSpecStrategyRollingUpdate{MaxUnavailable: s.ios(), MaxPodSchedulerFailure: s.ios(), SlowStartAdditiveIncrease: s.ios(),
		SlowStartIntervalDuration: s.dur(), MaxParallelPodCreation: s.i32()}
	spec.Strategy.ReconcileFrequency = s.dur()
	if flags&2 != 0 {
		c := &v1.ExtendedDaemonSetSpecStrategyCanary{ValidationMode: c16Modes[int(s.byte())%3], Duration: s.dur(), NoRestartsDuration: s.dur(), Replicas: s.ios()}
		if flags&4 != 0 {
			c.AutoFail = &v1.ExtendedDaemonSetSpecStrategyCanaryAutoFail{Enabled: s.boolp(), MaxRestarts: s.i32(), CanaryTimeout: s.dur(), MaxRestartsDuration: s.dur()}
		}
		if flags&8 != 0 {
			c.AutoPause = &v1.ExtendedDaemonSetSpecStrategyCanaryAutoPause{Enabled: s.boolp(), MaxRestarts: s.i32(), MaxSlowStartDuration: s.dur()}
		}
		if flags&16 != 0 {
			c.NodeAntiAffinityKeys = []string{"zone"}
		}
		if flags&32 != 0 {
			c.NodeSelector = &metav1.LabelSelector{MatchLabels: map[string]string{"zone": "a"}}
		}
		spec.Strategy.Canary = c
	}
	return spec, flags&64 != 0
}

// C16JudgeBytes runs one fuzz input through the pure oracles and the life-cycle scenario and
// returns the violations recorded (empty = held on this input).
func C16JudgeBytes(data []byte) []*core.Violation {
	ctx := core.ScratchCtx("C16", "fuzz", int64(len(data)))
	e := &C16{}
	spec, manual := C16FromBytes(data)
	dflt := v1.ExtendedDaemonSetSpecStrategyCanaryValidationModeAuto
	if manual {
		dflt = v1.ExtendedDaemonSetSpecStrategyCanaryValidationModeManual
	}
	e.judgePure(ctx, spec.DeepCopy(), dflt)
	e.runScenario(ctx, spec)
	return ctx.Violations()
}
