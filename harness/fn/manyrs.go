package fn

import (
	"fmt"
	"sort"
	"time"

	corev1 "k8s.io/api/core/v1"
	metav1 "k8s.io/apimachinery/pkg/apis/meta/v1"

	v1 "github.com/DataDog/extendeddaemonset/api/v1alpha1"

	"vh/core"
	"vh/kit"
	"vh/simapi"
)

// ManyRS: an ExtendedDaemonSet in the middle of a canary that owns many replica sets (up to 35: a slow or
// frozen rollout followed by a series of template changes, a dozen canaries failed in a row). Prepared stores,
// a few real ExtendedDaemonSet reconciles, store-level judgement of what the promotion rule (C05), the
// rollback and retention of failed replica sets (C07) and the collection of replica sets (C13) allow. The same
// engine is registered under the three properties; each check counts the rules of its own property.
type ManyRS struct{ Prop string }

func (e *ManyRS) Name() string { return "fn.many-rs" }
func (e *ManyRS) Rule() string {
	return "prepared stores: one ExtendedDaemonSet with a manual (or 1h auto, 1 min old) canary in progress, an active and a canary replica set and 0-33 left-over replica sets with random names and ages (half of them reporting no pods, some Canary-Failed seconds or minutes ago), optionally the canary itself just failed; three real ExtendedDaemonSet reconciles; judged on the store: status.activeReplicaSet never changes (no promotion condition holds), the active replica set and the one matching spec.template are never deleted, only replica sets reporting no pods are deleted, a replica set that failed less than two minutes ago is kept, a failed canary is rolled back to the active template; non-trivial = distinct (left-over count, order of the active replica set in the listing, failed canary) tuples with more than ten replica sets"
}
func (e *ManyRS) Cases(tier string, _ int64) int {
	if tier == "thorough" {
		return 400
	}
	return 48
}
func (e *ManyRS) Floors(string) map[string]int {
	return map[string]int{"manyrs.stores": 1000, "manyrs.stores-with-more-than-ten-replicasets": 400, "manyrs.deletes-judged": 1500}
}

func (e *ManyRS) Run(ctx *core.Ctx, idx int) {
	for i := 0; i < 30; i++ {
		e.one(ctx)
	}
}

func (e *ManyRS) one(ctx *core.Ctx) {
	r := ctx.Rand
	now := kit.T0
	simapi.SetNow(now)
	s := simapi.NewStore()
	extra := []int{0, 3, 8, 9, 10, 11, 12, 20, 33}[r.Intn(9)]
	canary := &v1.ExtendedDaemonSetSpecStrategyCanary{Replicas: kit.IS(1), ValidationMode: v1.ExtendedDaemonSetSpecStrategyCanaryValidationModeManual}
	manual := r.Intn(2) == 0
	if !manual {
		canary.ValidationMode = v1.ExtendedDaemonSetSpecStrategyCanaryValidationModeAuto
		canary.Duration = &metav1.Duration{Duration: time.Hour}
	}
	eds := kit.NewEDS("ns", "foo", "B", canary)
	eds.UID = "uid-eds"
	name := func() string {
		b := make([]byte, 5)
		for i := range b {
			b[i] = "bcdfghjklmnpqrstvwxz2456789"[r.Intn(27)]
		}
		return "foo-" + string(b)
	}
	used := map[string]bool{}
	fresh := func() string {
		for {
			n := name()
			if !used[n] {
				used[n] = true
				return n
			}
		}
	}
	// ages: the active replica set is usually the oldest (re-activated by a revert) or somewhere in between
	activeAge := time.Duration(2+r.Intn(40)) * time.Hour
	rsA := kit.NewRS(s, eds, fresh(), kit.Tpl("A"), now.Add(-activeAge))
	rsA.Status = v1.ExtendedDaemonSetReplicaSetStatus{Status: "active", Desired: 2, Current: 2, Ready: 2, Available: 2}
	if r.Intn(3) == 0 {
		// re-activated by a revert and not synced since: it reports nothing yet
		rsA.Status = v1.ExtendedDaemonSetReplicaSetStatus{Status: "active"}
	}
	rsB := kit.NewRS(s, eds, fresh(), kit.Tpl("B"), now.Add(-time.Minute))
	rsB.Status = v1.ExtendedDaemonSetReplicaSetStatus{Status: "canary", Desired: 1, Current: 1, Ready: 1, Available: 1}
	canaryFailed := r.Intn(4) == 0
	if canaryFailed {
		rsB.Status.Conditions = append(rsB.Status.Conditions, v1.ExtendedDaemonSetReplicaSetCondition{Type: v1.ConditionTypeCanaryFailed, Status: corev1.ConditionTrue, LastTransitionTime: metav1.NewTime(now.Add(-5 * time.Second)), LastUpdateTime: metav1.NewTime(now.Add(-5 * time.Second))})
	}
	type left struct {
		rs          *v1.ExtendedDaemonSetReplicaSet
		empty       bool
		failedSince time.Duration // 0 = not failed
	}
	var lefts []left
	for i := 0; i < extra; i++ {
		rs := kit.NewRS(s, eds, fresh(), kit.Tpl(fmt.Sprintf("L%02d", i)), now.Add(-time.Duration(1+r.Intn(60))*time.Hour))
		l := left{rs: rs, empty: r.Intn(2) == 0}
		if !l.empty {
			rs.Status = v1.ExtendedDaemonSetReplicaSetStatus{Status: "unknown", Current: 1, Ready: 1, Available: 1}
		}
		switch r.Intn(5) {
		case 0:
			l.failedSince = time.Duration(10+r.Intn(100)) * time.Second
		case 1:
			l.failedSince = time.Duration(3+r.Intn(30)) * time.Minute
		}
		if l.failedSince > 0 {
			t := metav1.NewTime(now.Add(-l.failedSince))
			rs.Status.Conditions = append(rs.Status.Conditions, v1.ExtendedDaemonSetReplicaSetCondition{Type: v1.ConditionTypeCanaryFailed, Status: corev1.ConditionTrue, LastTransitionTime: t, LastUpdateTime: t})
		}
		lefts = append(lefts, l)
	}
	eds.Status.ActiveReplicaSet = rsA.Name
	eds.Status.Desired = 3
	eds.Status.State = v1.ExtendedDaemonSetStatusStateCanary
	eds.Status.Canary = &v1.ExtendedDaemonSetStatusCanary{ReplicaSet: rsB.Name, Nodes: []string{"n0"}}
	s.Inject(eds)
	s.Inject(rsA)
	s.Inject(rsB)
	for _, l := range lefts {
		s.Inject(l.rs)
	}
	for i := 0; i < 3; i++ {
		s.Inject(kit.Node(fmt.Sprintf("n%d", i), nil))
	}
	// position of the active replica set in a listing by name (what the double and the fake client return)
	var names []string
	for n := range used {
		names = append(names, n)
	}
	sort.Strings(names)
	pos := sort.SearchStrings(names, rsA.Name)
	ctx.Count("manyrs.stores")
	ctx.Count("evaluations")
	total := extra + 2
	if total > 10 {
		ctx.Count("manyrs.stores-with-more-than-ten-replicasets")
		ctx.Distinct("nontrivial", fmt.Sprintf("%d|%d|%v", extra, pos, canaryFailed))
	}
	desc := map[string]any{"replicaSets": total, "active": rsA.Name, "canary": rsB.Name, "positionOfActiveInListing": pos, "canaryFailed": canaryFailed, "manual": manual}
	attrs := func(extraKV ...string) map[string]string {
		a := map[string]string{"moreThanTen": fmt.Sprint(total > 10), "canaryFailed": fmt.Sprint(canaryFailed)}
		for i := 0; i+1 < len(extraKV); i += 2 {
			a[extraKV[i]] = extraKV[i+1]
		}
		return a
	}
	ctl := kit.NewControllers(s, kit.CtlOpts{})
	exists := func(n string) *v1.ExtendedDaemonSetReplicaSet {
		for _, rs := range kit.RSs(s) {
			if rs.Namespace == "ns" && rs.Name == n {
				return rs
			}
		}
		return nil
	}
	for round := 0; round < 3; round++ {
		out := ctl.Reconcile("eds", "ns", "foo", "fn")
		if out.Panic != "" {
			ctx.Violation(e.Prop, e.Prop+".no-panic", attrs("panic", out.Panic), desc)
			return
		}
		after := kit.GetEDS(s, "ns", "foo")
		// C05: no promotion condition holds (manual mode, or one minute into a one-hour canary, no canary-valid
		// annotation; a failed canary is rolled back, never promoted)
		if after.Status.ActiveReplicaSet != rsA.Name {
			to := "a-left-over-replicaset"
			if after.Status.ActiveReplicaSet == rsB.Name {
				to = "the-canary-replicaset"
			}
			ctx.Violation("C05", "C05.active-changed-without-promotion-condition", attrs("to", to), map[string]any{"case": desc, "activeReplicaSet": after.Status.ActiveReplicaSet, "round": round})
		}
		// C13: never delete the active replica set nor the one matching spec.template
		if rs := exists(rsA.Name); rs == nil || rs.DeletionTimestamp != nil {
			ctx.Violation("C13", "C13.never-delete-in-use", attrs("which", "active"), map[string]any{"case": desc, "round": round})
		}
		tplMarker := kit.MarkerOfTemplate(&after.Spec.Template)
		if tplMarker == "B" {
			if rs := exists(rsB.Name); rs == nil || rs.DeletionTimestamp != nil {
				ctx.Violation("C13", "C13.never-delete-in-use", attrs("which", "up-to-date"), map[string]any{"case": desc, "round": round})
			}
		}
		// deletions: only replica sets that report no pods; failed ones only after two minutes
		for _, l := range lefts {
			if exists(l.rs.Name) != nil {
				continue
			}
			ctx.Count("manyrs.deletes-judged")
			if !l.empty {
				ctx.Violation("C13", "C13.delete-only-empty", attrs(), map[string]any{"case": desc, "deleted": l.rs.Name, "status": fmt.Sprintf("%+v", l.rs.Status), "round": round})
				if l.failedSince > 0 {
					ctx.Violation("C07", "C07.deleted-only-once-empty", attrs(), map[string]any{"case": desc, "deleted": l.rs.Name, "round": round})
				}
			}
			if l.failedSince > 0 && l.failedSince < 2*time.Minute {
				ctx.Violation("C07", "C07.retention", attrs(), map[string]any{"case": desc, "deleted": l.rs.Name, "failedSince": l.failedSince.String(), "round": round})
			}
		}
		if canaryFailed {
			if exists(rsB.Name) == nil {
				ctx.Violation("C07", "C07.retention", attrs("which", "the-failed-canary"), map[string]any{"case": desc, "round": round})
			}
			if out.Err == nil && round >= 1 {
				ctx.Count("manyrs.rollbacks-judged")
				if tplMarker != "A" || after.Status.Canary != nil {
					ctx.Violation("C07", "C07.nodes-restored", attrs("cause", "spec-not-restored"), map[string]any{"case": desc, "template": tplMarker, "statusCanary": after.Status.Canary != nil, "round": round})
				}
			}
		}
		simapi.Advance(2 * time.Second)
	}
}
