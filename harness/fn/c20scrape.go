package fn

import (
	"encoding/json"
	"fmt"
	"io"
	"math/rand"
	"net/http"
	"net/http/httptest"
	"os"
	"path/filepath"
	"sort"
	"strconv"
	"strings"
	"sync"
	"time"

	corev1 "k8s.io/api/core/v1"
	metav1 "k8s.io/apimachinery/pkg/apis/meta/v1"
	"k8s.io/apimachinery/pkg/runtime"
	"k8s.io/apimachinery/pkg/types"
	"k8s.io/klog/v2"

	v1 "github.com/DataDog/extendeddaemonset/api/v1alpha1"
	_ "github.com/DataDog/extendeddaemonset/controllers/extendeddaemonset"
	_ "github.com/DataDog/extendeddaemonset/controllers/extendeddaemonsetreplicaset"
	"github.com/DataDog/extendeddaemonset/pkg/controller/metrics"

	"vh/core"
	"vh/kit"
)

// C20Scrape: the exported series as a scraper sees them. The repository's real wiring
// (metrics.GetExtraMetricHandlers -> the handler functions both controller packages register ->
// metrics.AddMetrics -> client-go reflector -> kube-state-metrics store -> /ksmetrics) runs against a
// small API server double that serves discovery, LIST and WATCH for the two kinds and keeps an event
// log. A seeded script creates, updates, relabels and deletes objects in watched and unwatched
// namespaces, expires and closes watches and fails LIST requests; at judging points the monitor scrapes
// /ksmetrics until it shows exactly the series an independent oracle derives from the objects the
// server currently stores.
type C20Scrape struct{}

func (e *C20Scrape) Name() string { return "fn.c20-scrape" }
func (e *C20Scrape) Rule() string {
	return "seeded scripts of 8-16 steps over 0-4 ExtendedDaemonSets and 0-5 replica sets in three namespaces, the controller watching all namespaces, one, or two of them: create, status update, relabel (incl. dotted/slashed/colliding keys), delete, storms of simultaneous updates of both kinds, watch expiry (410 and relist), normal watch close, failed LIST; after every judging point /ksmetrics of the real wiring must show exactly the oracle's series (value, namespace/name, label pairs) for the stored objects of the watched namespaces and none for deleted or unwatched ones; non-trivial = judging points reached after a relist or a re-opened watch"
}
func (e *C20Scrape) Cases(tier string, _ int64) int {
	if tier == "thorough" {
		return 160
	}
	return 32
}
func (e *C20Scrape) Floors(string) map[string]int {
	return map[string]int{"C20.scrapes-judged": 100, "C20.scrape-series-judged": 3000, "C20.scrape-after-relist": 15, "C20.scrape-after-delete": 15, "C20.scrape-unwatched-namespace-objects": 10}
}

// c20Sync is how long a judging point waits for the asynchronous reflector before the
// mismatch is reported. The reflector's own back-off after an error is 0.8 s at first and never above
// 30 s; on the unchanged tree a judging point is reached within milliseconds to a few seconds.
const c20Sync = 120 * time.Second

type c20ev struct {
	rv  int
	typ string
	ns  string
	raw []byte
}

type c20obj struct {
	ns, name string
	raw      []byte
	eds      *v1.ExtendedDaemonSet
	ers      *v1.ExtendedDaemonSetReplicaSet
}

type c20srv struct {
	mu        sync.Mutex
	rv        int
	objs      map[string]map[string]*c20obj // resource -> ns/name
	log       map[string][]c20ev
	compacted map[string]int
	gen       map[string]int    // watchers opened before this generation must end
	genMode   map[string]string // "expire" | "close"
	failList  map[string]int
	reqs      []string
	lists     map[string]int
	watches   map[string]int
	closed    bool // the case is over: every handler returns at once
}

var c20Resources = map[string]string{"extendeddaemonsets": "ExtendedDaemonSet", "extendeddaemonsetreplicasets": "ExtendedDaemonSetReplicaSet"}

func newC20Srv() *c20srv {
	s := &c20srv{rv: 10, objs: map[string]map[string]*c20obj{}, log: map[string][]c20ev{}, compacted: map[string]int{}, gen: map[string]int{}, genMode: map[string]string{}, failList: map[string]int{}, lists: map[string]int{}, watches: map[string]int{}}
	for r := range c20Resources {
		s.objs[r] = map[string]*c20obj{}
	}
	return s
}

func (s *c20srv) note(f string, a ...any) {
	if len(s.reqs) < 400 {
		s.reqs = append(s.reqs, fmt.Sprintf(f, a...))
	}
}

// put stores a new version of an object (typ ADDED/MODIFIED) or removes it (DELETED).
func (s *c20srv) put(res, typ string, o *c20obj) {
	s.mu.Lock()
	defer s.mu.Unlock()
	s.rv++
	rv := strconv.Itoa(s.rv)
	if o.eds != nil {
		o.eds.ResourceVersion = rv
		o.eds.TypeMeta = metav1.TypeMeta{Kind: "ExtendedDaemonSet", APIVersion: v1.GroupVersion.String()}
		o.raw, _ = json.Marshal(o.eds)
	} else {
		o.ers.ResourceVersion = rv
		o.ers.TypeMeta = metav1.TypeMeta{Kind: "ExtendedDaemonSetReplicaSet", APIVersion: v1.GroupVersion.String()}
		o.raw, _ = json.Marshal(o.ers)
	}
	key := o.ns + "/" + o.name
	if typ == "DELETED" {
		delete(s.objs[res], key)
	} else {
		s.objs[res][key] = o
	}
	s.log[res] = append(s.log[res], c20ev{rv: s.rv, typ: typ, ns: o.ns, raw: o.raw})
	s.note("store %s %s %s rv=%d", typ, res, key, s.rv)
}

func (s *c20srv) endWatches(res, mode string) {
	s.mu.Lock()
	defer s.mu.Unlock()
	s.gen[res]++
	s.genMode[res] = mode
	if mode == "expire" {
		// like a compaction: nothing at or before the current revision can be watched any more
		s.rv++
		s.compacted[res] = s.rv
	}
	s.note("server ends watches of %s (%s) rv=%d", res, mode, s.rv)
}

func (s *c20srv) ServeHTTP(w http.ResponseWriter, r *http.Request) {
	s.mu.Lock()
	closed := s.closed
	s.mu.Unlock()
	if closed {
		w.WriteHeader(http.StatusServiceUnavailable)
		return
	}
	w.Header().Set("Content-Type", "application/json")
	gv := v1.GroupVersion
	gvd := metav1.GroupVersionForDiscovery{GroupVersion: gv.String(), Version: gv.Version}
	p := r.URL.Path
	switch {
	case p == "/api":
		_ = json.NewEncoder(w).Encode(metav1.APIVersions{TypeMeta: metav1.TypeMeta{Kind: "APIVersions"}, Versions: []string{"v1"}})
		return
	case p == "/api/v1":
		_ = json.NewEncoder(w).Encode(metav1.APIResourceList{TypeMeta: metav1.TypeMeta{Kind: "APIResourceList", APIVersion: "v1"}, GroupVersion: "v1"})
		return
	case p == "/apis":
		_ = json.NewEncoder(w).Encode(metav1.APIGroupList{TypeMeta: metav1.TypeMeta{Kind: "APIGroupList", APIVersion: "v1"},
			Groups: []metav1.APIGroup{{Name: gv.Group, Versions: []metav1.GroupVersionForDiscovery{gvd}, PreferredVersion: gvd}}})
		return
	case p == "/apis/"+gv.Group:
		_ = json.NewEncoder(w).Encode(metav1.APIGroup{TypeMeta: metav1.TypeMeta{Kind: "APIGroup", APIVersion: "v1"}, Name: gv.Group, Versions: []metav1.GroupVersionForDiscovery{gvd}, PreferredVersion: gvd})
		return
	case p == "/apis/"+gv.String():
		l := metav1.APIResourceList{TypeMeta: metav1.TypeMeta{Kind: "APIResourceList", APIVersion: "v1"}, GroupVersion: gv.String()}
		for _, res := range []string{"extendeddaemonsets", "extendeddaemonsetreplicasets"} {
			l.APIResources = append(l.APIResources, metav1.APIResource{Name: res, SingularName: strings.TrimSuffix(res, "s"), Namespaced: true, Kind: c20Resources[res], Verbs: metav1.Verbs{"get", "list", "watch"}})
		}
		_ = json.NewEncoder(w).Encode(l)
		return
	}
	rest := strings.TrimPrefix(p, "/apis/"+gv.String()+"/")
	if rest == p {
		http.NotFound(w, r)
		return
	}
	parts := strings.Split(rest, "/")
	ns, res := "", ""
	switch {
	case len(parts) == 1:
		res = parts[0]
	case len(parts) == 3 && parts[0] == "namespaces":
		ns, res = parts[1], parts[2]
	}
	if _, ok := c20Resources[res]; !ok {
		http.NotFound(w, r)
		return
	}
	q := r.URL.Query()
	if q.Get("watch") == "true" || q.Get("watch") == "1" {
		s.serveWatch(w, r, res, ns)
		return
	}
	s.mu.Lock()
	s.lists[res]++
	if s.failList[res] > 0 {
		s.failList[res]--
		s.note("LIST %s ns=%q -> 500", res, ns)
		s.mu.Unlock()
		w.WriteHeader(http.StatusInternalServerError)
		_ = json.NewEncoder(w).Encode(metav1.Status{TypeMeta: metav1.TypeMeta{Kind: "Status", APIVersion: "v1"}, Status: "Failure", Reason: metav1.StatusReasonInternalError, Code: 500, Message: "injected"})
		return
	}
	keys := []string{}
	for k, o := range s.objs[res] {
		if ns == "" || o.ns == ns {
			keys = append(keys, k)
		}
	}
	sort.Strings(keys)
	items := []json.RawMessage{}
	for _, k := range keys {
		items = append(items, json.RawMessage(s.objs[res][k].raw))
	}
	s.note("LIST %s ns=%q -> %d items rv=%d", res, ns, len(items), s.rv)
	out := map[string]any{"kind": c20Resources[res] + "List", "apiVersion": gv.String(), "metadata": map[string]any{"resourceVersion": strconv.Itoa(s.rv)}, "items": items}
	s.mu.Unlock()
	_ = json.NewEncoder(w).Encode(out)
}

const c20Expired = `{"type":"ERROR","object":{"kind":"Status","apiVersion":"v1","metadata":{},"status":"Failure","message":"too old resource version","reason":"Expired","code":410}}`

func (s *c20srv) serveWatch(w http.ResponseWriter, r *http.Request, res, ns string) {
	from, _ := strconv.Atoi(r.URL.Query().Get("resourceVersion"))
	s.mu.Lock()
	s.watches[res]++
	myGen := s.gen[res]
	tooOld := from < s.compacted[res]
	if from == 0 {
		from = s.rv
		tooOld = false
	}
	s.note("WATCH %s ns=%q from=%d tooOld=%v", res, ns, from, tooOld)
	s.mu.Unlock()
	flusher, _ := w.(http.Flusher)
	w.WriteHeader(http.StatusOK)
	if tooOld {
		_, _ = w.Write([]byte(c20Expired + "\n"))
		flusher.Flush()
		return
	}
	flusher.Flush()
	last := from
	for {
		select {
		case <-r.Context().Done():
			return
		default:
		}
		s.mu.Lock()
		var send [][]byte
		for _, ev := range s.log[res] {
			if ev.rv > last && (ns == "" || ev.ns == ns) {
				send = append(send, []byte(fmt.Sprintf(`{"type":%q,"object":%s}`, ev.typ, ev.raw)))
			}
			if ev.rv > last {
				last = ev.rv
			}
		}
		end := ""
		if s.closed {
			end = "close"
		}
		if s.gen[res] > myGen && end == "" {
			end = s.genMode[res]
		}
		s.mu.Unlock()
		for _, b := range send {
			_, _ = w.Write(append(b, '\n'))
		}
		if len(send) > 0 {
			flusher.Flush()
		}
		switch end {
		case "expire":
			_, _ = w.Write([]byte(c20Expired + "\n"))
			flusher.Flush()
			return
		case "close":
			return
		}
		time.Sleep(3 * time.Millisecond)
	}
}

// --- oracle ---

type c20series struct {
	family, ns, name string
	labels           []string // sorted "k=v" without namespace/name
	value            float64
}

func c20ExpectEDS(o *v1.ExtendedDaemonSet) map[string]float64 {
	b2f := func(b bool) float64 {
		if b {
			return 1
		}
		return 0
	}
	n := 0
	if o.Status.Canary != nil {
		n = len(o.Status.Canary.Nodes)
	}
	paused := false
	for _, c := range o.Status.Conditions {
		if c.Type == v1.ConditionTypeEDSCanaryPaused && c.Status == corev1.ConditionTrue {
			paused = true
		}
	}
	return map[string]float64{
		"eds_status_desired": float64(o.Status.Desired), "eds_status_current": float64(o.Status.Current), "eds_status_ready": float64(o.Status.Ready),
		"eds_status_available": float64(o.Status.Available), "eds_status_uptodate": float64(o.Status.UpToDate),
		"eds_status_ignored_unresponsive_nodes": float64(o.Status.IgnoredUnresponsiveNodes),
		"eds_status_canary_activated":           b2f(o.Status.Canary != nil),
		"eds_status_canary_node_number":         float64(n),
		"eds_status_canary_paused":              b2f(o.Status.Canary != nil && paused),
		"eds_status_rolling_update_paused":      b2f(o.Status.State == v1.ExtendedDaemonSetStatusStateRollingUpdatePaused),
		"eds_status_rollout_frozen":             b2f(o.Status.State == v1.ExtendedDaemonSetStatusStateRolloutFrozen),
		"eds_created":                           float64(o.CreationTimestamp.Unix()),
		"eds_labels":                            1,
	}
}

func c20ExpectERS(o *v1.ExtendedDaemonSetReplicaSet) map[string]float64 {
	failed := 0.0
	for _, c := range o.Status.Conditions {
		if c.Type == v1.ConditionTypeCanaryFailed && c.Status == corev1.ConditionTrue {
			failed = 1
		}
	}
	return map[string]float64{
		"ers_status_desired": float64(o.Status.Desired), "ers_status_current": float64(o.Status.Current), "ers_status_ready": float64(o.Status.Ready),
		"ers_status_available": float64(o.Status.Available), "ers_status_ignored_unresponsive_nodes": float64(o.Status.IgnoredUnresponsiveNodes),
		"ers_status_canary_failed": failed, "ers_created": float64(o.CreationTimestamp.Unix()), "ers_labels": 1,
	}
}

// expected returns "family|ns|name" -> rendering of value and (for the labels family) label pairs.
func (s *c20srv) expected(watched []string) map[string]string {
	s.mu.Lock()
	defer s.mu.Unlock()
	vis := func(ns string) bool {
		if len(watched) == 0 {
			return true
		}
		for _, w := range watched {
			if w == ns {
				return true
			}
		}
		return false
	}
	out := map[string]string{}
	add := func(ns, name string, want map[string]float64, lbls map[string]string, labelsFam string) {
		for f, v := range want {
			r := strconv.FormatFloat(v, 'g', -1, 64)
			if f == labelsFam {
				pairs := []string{}
				for k, lv := range lbls {
					pairs = append(pairs, sanitise(k)+"="+lv)
				}
				sort.Strings(pairs)
				r += " " + strings.Join(pairs, ",")
			}
			out[f+"|"+ns+"|"+name] = r
		}
	}
	for _, o := range s.objs["extendeddaemonsets"] {
		if vis(o.ns) {
			add(o.ns, o.name, c20ExpectEDS(o.eds), o.eds.Labels, "eds_labels")
		}
	}
	for _, o := range s.objs["extendeddaemonsetreplicasets"] {
		if vis(o.ns) {
			add(o.ns, o.name, c20ExpectERS(o.ers), o.ers.Labels, "ers_labels")
		}
	}
	return out
}

// parseScrape turns the text exposition into the same map; families the oracle does not know are
// returned separately (by family name) so that series of unknown objects are still seen.
func c20ParseScrape(text string, judged map[string]bool) (map[string]string, []string, []string) {
	got := map[string]string{}
	var dup, malformed []string
	for _, l := range strings.Split(text, "\n") {
		if l == "" || strings.HasPrefix(l, "#") {
			continue
		}
		ob := strings.IndexByte(l, '{')
		cb := strings.LastIndexByte(l, '}')
		if ob < 0 || cb < ob {
			// a series without labels is not one of the per-object families
			continue
		}
		fam := l[:ob]
		if !judged[fam] {
			continue
		}
		val := strings.TrimSpace(l[cb+1:])
		f, err := strconv.ParseFloat(val, 64)
		if err != nil {
			malformed = append(malformed, l)
			continue
		}
		ns, name := "", ""
		pairs := []string{}
		body := l[ob+1 : cb]
		for len(body) > 0 {
			eq := strings.Index(body, `="`)
			if eq < 0 {
				malformed = append(malformed, l)
				break
			}
			k := body[:eq]
			restv := body[eq+2:]
			endq := strings.IndexByte(restv, '"')
			if endq < 0 {
				malformed = append(malformed, l)
				break
			}
			v := restv[:endq]
			body = strings.TrimPrefix(restv[endq+1:], ",")
			switch {
			case k == "namespace" && ns == "":
				ns = v
			case k == "name" && name == "":
				name = v
			default:
				pairs = append(pairs, k+"="+v)
			}
		}
		r := strconv.FormatFloat(f, 'g', -1, 64)
		if strings.HasSuffix(fam, "_labels") {
			sort.Strings(pairs)
			r += " " + strings.Join(pairs, ",")
		}
		key := fam + "|" + ns + "|" + name
		if _, ok := got[key]; ok {
			dup = append(dup, key)
		}
		got[key] = r
	}
	return got, dup, malformed
}

var c20Judged = func() map[string]bool {
	m := map[string]bool{}
	for f := range c20ExpectEDS(&v1.ExtendedDaemonSet{}) {
		m[f] = true
	}
	for f := range c20ExpectERS(&v1.ExtendedDaemonSetReplicaSet{}) {
		m[f] = true
	}
	return m
}()

var c20klog sync.Once

func (e *C20Scrape) Run(ctx *core.Ctx, idx int) {
	c20klog.Do(func() {
		klog.LogToStderr(false)
		klog.SetOutput(io.Discard)
	})
	r := ctx.Rand
	srv := newC20Srv()
	hs := httptest.NewServer(srv)
	defer func() {
		// the reflectors started by AddMetrics cannot be stopped: end their watches, then close
		srv.mu.Lock()
		srv.closed = true
		srv.mu.Unlock()
		hs.CloseClientConnections()
		hs.Close()
	}()
	dir, err := os.MkdirTemp("", "c20scrape")
	if err != nil {
		ctx.Note("c20-scrape: " + err.Error())
		return
	}
	defer os.RemoveAll(dir)
	kc := filepath.Join(dir, "kubeconfig")
	_ = os.WriteFile(kc, []byte(fmt.Sprintf("apiVersion: v1\nkind: Config\nclusters:\n- name: c\n  cluster:\n    server: %s\ncontexts:\n- name: c\n  context:\n    cluster: c\n    user: u\ncurrent-context: c\nusers:\n- name: u\n  user: {}\n", hs.URL)), 0o600)
	os.Setenv("KUBECONFIG", kc)
	nss := []string{"ns-a", "ns-b", "ns-c"}
	var watched []string
	switch idx % 4 {
	case 0, 1:
		watched = nil
	case 2:
		watched = []string{"ns-a"}
	case 3:
		watched = []string{"ns-a", "ns-b"}
	}
	if idx%4 == 0 {
		os.Unsetenv("WATCH_NAMESPACE")
	} else {
		os.Setenv("WATCH_NAMESPACE", strings.Join(watched, ","))
	}
	defer os.Unsetenv("WATCH_NAMESPACE")
	defer os.Unsetenv("KUBECONFIG")
	attrs := map[string]string{"watched": fmt.Sprint(len(watched))}

	uid := 0
	meta := func(name string) metav1.ObjectMeta {
		uid++
		return metav1.ObjectMeta{Name: name, Namespace: nss[r.Intn(3)], UID: types.UID(fmt.Sprintf("u%d-%d", idx, uid)), Generation: 1,
			CreationTimestamp: metav1.NewTime(kit.T0.Add(time.Duration(r.Intn(1000)) * time.Second)), Labels: c20RandLabels(r)}
	}
	newEDS := func(name string) *c20obj {
		o := &v1.ExtendedDaemonSet{ObjectMeta: meta(name)}
		c20RandEDSStatus(r, o)
		return &c20obj{ns: o.Namespace, name: name, eds: o}
	}
	newERS := func(name string) *c20obj {
		o := &v1.ExtendedDaemonSetReplicaSet{ObjectMeta: meta(name)}
		c20RandERSStatus(r, o)
		return &c20obj{ns: o.Namespace, name: name, ers: o}
	}
	nE, nR := r.Intn(4), r.Intn(5)
	seq := 0
	for i := 0; i < nE; i++ {
		seq++
		srv.put("extendeddaemonsets", "ADDED", newEDS(fmt.Sprintf("eds-%d", seq)))
	}
	for i := 0; i < nR; i++ {
		seq++
		srv.put("extendeddaemonsetreplicasets", "ADDED", newERS(fmt.Sprintf("ers-%d", seq)))
	}

	scheme := runtime.NewScheme()
	_ = v1.AddToScheme(scheme)
	handlers, err := metrics.GetExtraMetricHandlers(scheme)
	if err != nil {
		ctx.Violation("C20", "C20.scrape-endpoint", map[string]string{"error": "GetExtraMetricHandlers"}, err.Error())
		return
	}
	ksm := handlers["/ksmetrics"]
	if ksm == nil {
		ctx.Violation("C20", "C20.scrape-endpoint", map[string]string{"error": "no /ksmetrics handler"}, nil)
		return
	}
	// like net/http's server, a panicking handler ends the response where it is
	scrapePanic := ""
	scrape := func() string {
		rec := httptest.NewRecorder()
		func() {
			defer func() {
				if x := recover(); x != nil {
					scrapePanic = fmt.Sprint(x)
				}
			}()
			ksm.ServeHTTP(rec, httptest.NewRequest(http.MethodGet, "/ksmetrics", nil))
		}()
		return rec.Body.String()
	}
	afterRelist, afterDelete, afterReopen := false, false, false
	var history []string
	judge := func() bool {
		want := srv.expected(watched)
		deadline := time.Now().Add(c20Sync)
		var got map[string]string
		var dup, malformed []string
		text := ""
		for {
			text = scrape()
			if scrapePanic != "" {
				ctx.Violation("C20", "C20.scrape-no-panic", map[string]string{"panic": scrapePanic}, map[string]any{"script": history, "truncated-output-bytes": len(text)})
				return false
			}
			got, dup, malformed = c20ParseScrape(text, c20Judged)
			if len(dup) == 0 && len(malformed) == 0 && len(got) == len(want) {
				same := true
				for k, v := range want {
					if got[k] != v {
						same = false
						break
					}
				}
				if same {
					break
				}
			}
			if time.Now().After(deadline) {
				diff := []string{}
				for k, v := range want {
					if g, ok := got[k]; !ok {
						diff = append(diff, "missing "+k+" want "+v)
					} else if g != v {
						diff = append(diff, "differs "+k+" got "+g+" want "+v)
					}
				}
				for k, g := range got {
					if _, ok := want[k]; !ok {
						diff = append(diff, "unexpected "+k+" = "+g)
					}
				}
				for _, d := range dup {
					diff = append(diff, "duplicate "+d)
				}
				sort.Strings(diff)
				kind := "differs"
				if len(diff) > 0 {
					kind = strings.SplitN(diff[0], " ", 2)[0]
				}
				if len(diff) > 12 {
					diff = diff[:12]
				}
				srv.mu.Lock()
				reqs := append([]string{}, srv.reqs...)
				srv.mu.Unlock()
				if len(reqs) > 60 {
					reqs = reqs[len(reqs)-60:]
				}
				a := map[string]string{"watched": attrs["watched"], "kind": kind, "afterRelist": fmt.Sprint(afterRelist), "afterDelete": fmt.Sprint(afterDelete)}
				ctx.Violation("C20", "C20.scrape-matches-stored-objects", a, map[string]any{"waited": c20Sync.String(), "diff": diff, "malformed": malformed, "script": history, "server": reqs, "watchedNamespaces": watched})
				return false
			}
			time.Sleep(10 * time.Millisecond)
		}
		ctx.Count("evaluations")
		ctx.Count("C20.scrapes-judged")
		ctx.Add("C20.scrape-series-judged", len(want))
		if afterRelist {
			ctx.Count("C20.scrape-after-relist")
		}
		if afterReopen {
			ctx.Count("C20.scrape-after-reopened-watch")
		}
		if afterDelete {
			ctx.Count("C20.scrape-after-delete")
		}
		if afterRelist || afterReopen {
			st := []string{}
			for k, v := range want {
				st = append(st, k+"="+v)
			}
			sort.Strings(st)
			if ctx.Distinct("nontrivial", strings.Join(st, ";")) && r.Intn(20) == 0 {
				ctx.Sample(map[string]any{"script": history, "series": len(want)})
			}
		}
		srv.mu.Lock()
		unw := 0
		for _, m := range srv.objs {
			for _, o := range m {
				if len(watched) > 0 && o.ns != "ns-a" && !(len(watched) == 2 && o.ns == "ns-b") {
					unw++
				}
			}
		}
		srv.mu.Unlock()
		ctx.Add("C20.scrape-unwatched-namespace-objects", unw)
		return true
	}
	history = append(history, fmt.Sprintf("initial %d eds %d ers", nE, nR))
	if !judge() {
		return
	}
	pickObj := func(res string) *c20obj {
		srv.mu.Lock()
		defer srv.mu.Unlock()
		keys := []string{}
		for k := range srv.objs[res] {
			keys = append(keys, k)
		}
		if len(keys) == 0 {
			return nil
		}
		sort.Strings(keys)
		o := srv.objs[res][keys[r.Intn(len(keys))]]
		c := &c20obj{ns: o.ns, name: o.name}
		if o.eds != nil {
			c.eds = o.eds.DeepCopy()
		} else {
			c.ers = o.ers.DeepCopy()
		}
		return c
	}
	steps := 8 + r.Intn(9)
	for st := 0; st < steps; st++ {
		res := "extendeddaemonsets"
		if r.Intn(2) == 0 {
			res = "extendeddaemonsetreplicasets"
		}
		switch k := r.Intn(22); {
		case k >= 20: // a storm: objects of both kinds change at the same moment, several times over
			n := 10 + r.Intn(30)
			for i := 0; i < n; i++ {
				for _, rs := range []string{"extendeddaemonsets", "extendeddaemonsetreplicasets"} {
					if o := pickObj(rs); o != nil {
						if o.eds != nil {
							c20RandEDSStatus(r, o.eds)
							if i%3 == 0 {
								o.eds.Labels = c20RandLabels(r)
							}
						} else {
							c20RandERSStatus(r, o.ers)
							if i%3 == 0 {
								o.ers.Labels = c20RandLabels(r)
							}
						}
						srv.put(rs, "MODIFIED", o)
					}
				}
			}
			ctx.Count("C20.scrape-storms")
			history = append(history, fmt.Sprintf("storm of %d updates of both kinds", n))
		case k < 6: // status update
			if o := pickObj(res); o != nil {
				if o.eds != nil {
					c20RandEDSStatus(r, o.eds)
				} else {
					c20RandERSStatus(r, o.ers)
				}
				srv.put(res, "MODIFIED", o)
				history = append(history, "status "+res+" "+o.ns+"/"+o.name)
			}
		case k < 9: // relabel
			if o := pickObj(res); o != nil {
				if o.eds != nil {
					o.eds.Labels = c20RandLabels(r)
				} else {
					o.ers.Labels = c20RandLabels(r)
				}
				srv.put(res, "MODIFIED", o)
				history = append(history, "relabel "+res+" "+o.ns+"/"+o.name)
			}
		case k < 12: // create
			seq++
			var o *c20obj
			if res == "extendeddaemonsets" {
				o = newEDS(fmt.Sprintf("eds-%d", seq))
			} else {
				o = newERS(fmt.Sprintf("ers-%d", seq))
			}
			srv.put(res, "ADDED", o)
			history = append(history, "create "+res+" "+o.ns+"/"+o.name)
		case k < 15: // delete
			if o := pickObj(res); o != nil {
				srv.put(res, "DELETED", o)
				afterDelete = true
				history = append(history, "delete "+res+" "+o.ns+"/"+o.name)
			}
		case k < 17:
			if r.Intn(3) == 0 {
				srv.mu.Lock()
				srv.failList[res] = 1 + r.Intn(2)
				srv.mu.Unlock()
				history = append(history, "next LIST of "+res+" fails")
			}
			srv.endWatches(res, "expire")
			afterRelist = true
			history = append(history, "expire watches "+res)
		case k < 19:
			srv.endWatches(res, "close")
			afterReopen = true
			history = append(history, "close watches "+res)
		default: // same name in another namespace
			if o := pickObj(res); o != nil {
				other := nss[(indexOf(nss, o.ns)+1+r.Intn(2))%3]
				srv.mu.Lock()
				_, exists := srv.objs[res][other+"/"+o.name]
				srv.mu.Unlock()
				if !exists {
					uid++
					if o.eds != nil {
						o.eds.Namespace, o.eds.UID = other, types.UID(fmt.Sprintf("u%d-%d", idx, uid))
						c20RandEDSStatus(r, o.eds)
					} else {
						o.ers.Namespace, o.ers.UID = other, types.UID(fmt.Sprintf("u%d-%d", idx, uid))
						c20RandERSStatus(r, o.ers)
					}
					o.ns = other
					srv.put(res, "ADDED", o)
					history = append(history, "create same name "+res+" "+o.ns+"/"+o.name)
				}
			}
		}
		if r.Intn(2) == 0 || st == steps-1 {
			history = append(history, "judge")
			if !judge() {
				return
			}
		}
	}
}

func indexOf(l []string, s string) int {
	for i, x := range l {
		if x == s {
			return i
		}
	}
	return 0
}

func c20RandLabels(r *rand.Rand) map[string]string {
	n := r.Intn(6)
	if r.Intn(8) == 0 {
		return nil
	}
	m := map[string]string{}
	for len(m) < n {
		k := c20Keys[r.Intn(len(c20Keys))]
		m[k] = fmt.Sprintf("v%d-%s", r.Intn(4), strings.NewReplacer("/", "_", ".", "_").Replace(k))
		if r.Intn(10) == 0 {
			m[k] = "" // a marker label
		}
	}
	return m
}

func c20RandEDSStatus(r *rand.Rand, o *v1.ExtendedDaemonSet) {
	vals := []int32{0, 1, 2, 7, 250}
	pick := func() int32 { return vals[r.Intn(len(vals))] }
	o.Status = v1.ExtendedDaemonSetStatus{Desired: pick(), Current: pick(), Ready: pick(), Available: pick(), UpToDate: pick(), IgnoredUnresponsiveNodes: pick(), ActiveReplicaSet: o.Name + "-a"}
	o.Status.State = []v1.ExtendedDaemonSetStatusState{v1.ExtendedDaemonSetStatusStateRunning, v1.ExtendedDaemonSetStatusStateRollingUpdatePaused, v1.ExtendedDaemonSetStatusStateRolloutFrozen, v1.ExtendedDaemonSetStatusStateCanary, v1.ExtendedDaemonSetStatusStateCanaryPaused, v1.ExtendedDaemonSetStatusStateCanaryFailed}[r.Intn(6)]
	if r.Intn(2) == 0 {
		o.Status.Canary = &v1.ExtendedDaemonSetStatusCanary{ReplicaSet: o.Name + "-b"}
		for i := 0; i < r.Intn(4); i++ {
			o.Status.Canary.Nodes = append(o.Status.Canary.Nodes, fmt.Sprintf("n%d", i))
		}
	}
	switch r.Intn(3) {
	case 0:
		o.Status.Conditions = []v1.ExtendedDaemonSetCondition{{Type: v1.ConditionTypeEDSCanaryPaused, Status: corev1.ConditionTrue, Reason: "ImagePullBackOff"}}
	case 1:
		o.Status.Conditions = []v1.ExtendedDaemonSetCondition{{Type: v1.ConditionTypeEDSCanaryPaused, Status: corev1.ConditionFalse}}
	}
}

func c20RandERSStatus(r *rand.Rand, o *v1.ExtendedDaemonSetReplicaSet) {
	vals := []int32{0, 1, 2, 7, 250}
	pick := func() int32 { return vals[r.Intn(len(vals))] }
	o.Status = v1.ExtendedDaemonSetReplicaSetStatus{Desired: pick(), Current: pick(), Ready: pick(), Available: pick(), IgnoredUnresponsiveNodes: pick()}
	switch r.Intn(3) {
	case 0:
		o.Status.Conditions = []v1.ExtendedDaemonSetReplicaSetCondition{{Type: v1.ConditionTypeCanaryFailed, Status: corev1.ConditionTrue}}
	case 1:
		o.Status.Conditions = []v1.ExtendedDaemonSetReplicaSetCondition{{Type: v1.ConditionTypeCanaryFailed, Status: corev1.ConditionFalse}}
	}
}
