package fn

import (
	"encoding/json"
	"fmt"
	"math/rand"

	"github.com/go-logr/logr"
	corev1 "k8s.io/api/core/v1"
	apiequality "k8s.io/apimachinery/pkg/api/equality"
	"k8s.io/apimachinery/pkg/api/resource"
	metav1 "k8s.io/apimachinery/pkg/apis/meta/v1"

	v1 "github.com/DataDog/extendeddaemonset/api/v1alpha1"
	"github.com/DataDog/extendeddaemonset/controllers/extendeddaemonsetreplicaset/strategy"
	"github.com/DataDog/extendeddaemonset/pkg/controller/utils/comparison"
	podutils "github.com/DataDog/extendeddaemonset/pkg/controller/utils/pod"

	"vh/core"
	"vh/kit"
	"vh/simapi"
)

// C10 engine: CreatePodFromDaemonSetReplicaSet + compareCurrentPodWithNewPod round trip.
type C10 struct{}

func (e *C10) Name() string { return "fn.c10" }
func (e *C10) Rule() string {
	return "seeded (template, node, setting, mode) tuples: 1-3 containers with/without resources, affinity {nil, empty, 2 required terms incl. an existing metadata.name match-field, preferred only, required with empty terms}, nodeSelector, tolerations; node override annotations for some containers (well-formed, malformed, for another EDS); setting entries for some containers; both node-assignment modes; then every single perturbation (template, annotation value, annotation added/removed, setting value); non-trivial = distinct tuples with an override annotation or a setting"
}
func (e *C10) Cases(tier string, _ int64) int {
	if tier == "thorough" {
		return 800
	}
	return 80
}
func (e *C10) Floors(string) map[string]int {
	return map[string]int{"C10.created": 15000, "C10.with-annotation": 2000, "C10.with-setting": 2000, "C10.malformed-annotation": 300, "C10.perturb-template": 15000, "C10.perturb-annotation": 2000, "C10.perturb-setting": 1000}
}

func c10RR(r *rand.Rand) corev1.ResourceRequirements {
	out := corev1.ResourceRequirements{}
	if r.Intn(2) == 0 {
		// valid but not canonical spellings too ("1000m" is served back as written for a setting,
		// while the pod built from it comes back from the API server as "1")
		out.Requests = corev1.ResourceList{"cpu": resource.MustParse([]string{"100m", "1", "2", "1000m", "0.5", "2000m"}[r.Intn(6)])}
		if r.Intn(2) == 0 {
			out.Requests["memory"] = resource.MustParse([]string{"64Mi", "1Gi", "1024Mi", "1.5Gi"}[r.Intn(4)])
		}
	}
	if r.Intn(3) == 0 {
		out.Limits = corev1.ResourceList{"cpu": resource.MustParse([]string{"500m", "4", "4000m", "0.5"}[r.Intn(4)])}
	}
	return out
}

func (e *C10) Run(ctx *core.Ctx, idx int) {
	for i := 0; i < 250; i++ {
		e.one(ctx)
	}
}

func (e *C10) one(ctx *core.Ctx) {
	r := ctx.Rand
	scheme := simapi.NewScheme()
	nc := 1 + r.Intn(3)
	tplt := corev1.PodTemplateSpec{ObjectMeta: metav1.ObjectMeta{Labels: map[string]string{"app": "x"}}}
	if r.Intn(3) == 0 {
		tplt.Annotations = map[string]string{"user": "ann"}
	}
	if r.Intn(6) == 0 {
		tplt.Labels = nil
	}
	for i := 0; i < nc; i++ {
		tplt.Spec.Containers = append(tplt.Spec.Containers, corev1.Container{Name: fmt.Sprintf("c%d", i), Image: "img", Resources: c10RR(r)})
	}
	if r.Intn(3) == 0 {
		tplt.Spec.NodeSelector = map[string]string{"role": "agent"}
	}
	userTol := 0
	if r.Intn(3) == 0 {
		tplt.Spec.Tolerations = []corev1.Toleration{{Key: "dedicated", Operator: corev1.TolerationOpEqual, Value: "x", Effect: corev1.TaintEffectNoSchedule}}
		userTol = 1
	}
	if r.Intn(5) == 0 {
		// the template's own toleration uses the key of a default one but is not the same toleration
		// (other effect, or bounded): the default must still be added
		secs := int64(300)
		tplt.Spec.Tolerations = append(tplt.Spec.Tolerations, []corev1.Toleration{
			{Key: "node.kubernetes.io/not-ready", Operator: corev1.TolerationOpExists, Effect: corev1.TaintEffectNoSchedule},
			{Key: "node.kubernetes.io/unreachable", Operator: corev1.TolerationOpExists, Effect: corev1.TaintEffectNoExecute, TolerationSeconds: &secs},
		}[r.Intn(2)])
	}
	affMode := r.Intn(2) == 0
	affKind := r.Intn(8)
	switch affKind {
	case 7:
		// the template lists the nodes it wants by name, one required term per node (an In requirement on
		// metadata.name accepts a single value), the node the pod is created for among them
		names := [][]string{{"n0", "n1", "n2"}, {"n1", "n0"}, {"n2", "n1"}}[r.Intn(3)]
		var terms []corev1.NodeSelectorTerm
		for _, nm := range names {
			terms = append(terms, corev1.NodeSelectorTerm{MatchFields: []corev1.NodeSelectorRequirement{{Key: "metadata.name", Operator: corev1.NodeSelectorOpIn, Values: []string{nm}}}})
		}
		tplt.Spec.Affinity = &corev1.Affinity{NodeAffinity: &corev1.NodeAffinity{RequiredDuringSchedulingIgnoredDuringExecution: &corev1.NodeSelector{NodeSelectorTerms: terms}}}
	case 1:
		tplt.Spec.Affinity = &corev1.Affinity{}
	case 2:
		tplt.Spec.Affinity = &corev1.Affinity{NodeAffinity: &corev1.NodeAffinity{RequiredDuringSchedulingIgnoredDuringExecution: &corev1.NodeSelector{NodeSelectorTerms: []corev1.NodeSelectorTerm{
			{MatchExpressions: []corev1.NodeSelectorRequirement{{Key: "zone", Operator: corev1.NodeSelectorOpIn, Values: []string{"a"}}}},
			{MatchExpressions: []corev1.NodeSelectorRequirement{{Key: "zone", Operator: corev1.NodeSelectorOpIn, Values: []string{"b"}}}, MatchFields: []corev1.NodeSelectorRequirement{{Key: "metadata.name", Operator: corev1.NodeSelectorOpIn, Values: []string{"other"}}}},
		}}}}
	case 3:
		tplt.Spec.Affinity = &corev1.Affinity{NodeAffinity: &corev1.NodeAffinity{PreferredDuringSchedulingIgnoredDuringExecution: []corev1.PreferredSchedulingTerm{{Weight: 1, Preference: corev1.NodeSelectorTerm{MatchExpressions: []corev1.NodeSelectorRequirement{{Key: "zone", Operator: corev1.NodeSelectorOpExists}}}}}}}
	case 4:
		tplt.Spec.Affinity = &corev1.Affinity{NodeAffinity: &corev1.NodeAffinity{RequiredDuringSchedulingIgnoredDuringExecution: &corev1.NodeSelector{NodeSelectorTerms: []corev1.NodeSelectorTerm{
			{MatchExpressions: []corev1.NodeSelectorRequirement{{Key: "type", Operator: corev1.NodeSelectorOpNotIn, Values: []string{"excluded"}}}},
			{MatchFields: []corev1.NodeSelectorRequirement{{Key: "metadata.name", Operator: corev1.NodeSelectorOpNotIn, Values: []string{"zzz"}}}},
			{MatchExpressions: []corev1.NodeSelectorRequirement{{Key: "x", Operator: corev1.NodeSelectorOpExists}}},
		}}}}
	case 5:
		tplt.Spec.Affinity = &corev1.Affinity{PodAntiAffinity: &corev1.PodAntiAffinity{}}
	case 6:
		// a single term that excludes a node by name (a NotIn on metadata.name is not a pin)
		tplt.Spec.Affinity = &corev1.Affinity{NodeAffinity: &corev1.NodeAffinity{RequiredDuringSchedulingIgnoredDuringExecution: &corev1.NodeSelector{NodeSelectorTerms: []corev1.NodeSelectorTerm{
			{MatchFields: []corev1.NodeSelectorRequirement{{Key: "metadata.name", Operator: corev1.NodeSelectorOpNotIn, Values: []string{"node-x"}}}},
		}}}}
	}
	rs := &v1.ExtendedDaemonSetReplicaSet{ObjectMeta: metav1.ObjectMeta{Name: "rs-1", Namespace: "ns", UID: "u-rs", Labels: map[string]string{v1.ExtendedDaemonSetNameLabelKey: "eds"}}}
	rs.Spec.Template = tplt
	h, _ := comparison.GenerateMD5PodTemplateSpec(&tplt)
	rs.Spec.TemplateGeneration = h
	node := &corev1.Node{ObjectMeta: metav1.ObjectMeta{Name: "n1", Annotations: map[string]string{"unrelated": "x"}}}
	annFor := map[string]corev1.ResourceRequirements{}
	malformed := false
	for i := 0; i < nc; i++ {
		cn := fmt.Sprintf("c%d", i)
		switch r.Intn(8) {
		case 0, 1:
			x := c10RR(r)
			b, _ := json.Marshal(x)
			node.Annotations[fmt.Sprintf(v1.ExtendedDaemonSetRessourceNodeAnnotationKey, "ns", "eds", cn)] = string(b)
			annFor[cn] = x
		case 2:
			if r.Intn(3) == 0 {
				node.Annotations[fmt.Sprintf(v1.ExtendedDaemonSetRessourceNodeAnnotationKey, "ns", "eds", cn)] = `{"requests": nope`
				malformed = true
			}
		case 3:
			// annotation for another EDS: must have no effect
			node.Annotations[fmt.Sprintf(v1.ExtendedDaemonSetRessourceNodeAnnotationKey, "ns", "other-eds", cn)] = `{"requests":{"cpu":"3"}}`
		}
	}
	if r.Intn(5) == 0 {
		// an override written for a container the template does not (or no longer) have: an init
		// container, a renamed one, a typo. It changes nothing in the pod, and creation and comparison
		// must agree about it
		node.Annotations[fmt.Sprintf(v1.ExtendedDaemonSetRessourceNodeAnnotationKey, "ns", "eds", []string{"init", "sidecar-gone", "c0 "}[r.Intn(3)])] = `{"requests":{"cpu":"3"}}`
		ctx.Count("C10.with-annotation-for-absent-container")
	}
	var setting *v1.ExtendedDaemonsetSetting
	setFor := map[string]corev1.ResourceRequirements{}
	if r.Intn(2) == 0 {
		setting = &v1.ExtendedDaemonsetSetting{ObjectMeta: metav1.ObjectMeta{Name: "s", Namespace: "ns"}}
		for i := 0; i < nc; i++ {
			if r.Intn(2) == 0 {
				x := c10RR(r)
				setting.Spec.Containers = append(setting.Spec.Containers, v1.ExtendedDaemonsetSettingContainerSpec{Name: fmt.Sprintf("c%d", i), Resources: x})
				setFor[fmt.Sprintf("c%d", i)] = x
			}
		}
		if r.Intn(5) == 0 {
			setting.Spec.Containers = append(setting.Spec.Containers, v1.ExtendedDaemonsetSettingContainerSpec{Name: "not-in-template", Resources: c10RR(r)})
		}
	}
	both := 0
	for k := range annFor {
		if _, ok := setFor[k]; ok {
			both++
		}
	}
	desc := map[string]any{"containers": nc, "affinityKind": affKind, "affinityMode": affMode, "annotationFor": keysOf(annFor), "settingFor": keysOf(setFor), "malformedAnnotation": malformed}
	attrs := map[string]string{"annotationAndSettingSameContainer": fmt.Sprint(both > 0), "malformed": fmt.Sprint(malformed), "mode": map[bool]string{true: "affinity", false: "nodeName"}[affMode]}
	var pod *corev1.Pod
	var err error
	pan := ""
	func() {
		defer func() {
			if x := recover(); x != nil {
				pan = fmt.Sprint(x)
			}
		}()
		pod, err = podutils.CreatePodFromDaemonSetReplicaSet(scheme, rs, node, setting, affMode)
	}()
	ctx.Count("evaluations")
	if pan != "" {
		attrs["panic"] = pan
		ctx.Violation("C10", "C10.no-panic", attrs, desc)
		return
	}
	if pod == nil {
		ctx.Violation("C10", "C10.nil-pod", attrs, desc)
		return
	}
	ctx.Count("C10.created")
	if len(annFor) > 0 {
		ctx.Count("C10.with-annotation")
	}
	if setting != nil {
		ctx.Count("C10.with-setting")
	}
	if malformed {
		ctx.Count("C10.malformed-annotation")
		// the statement does not require a malformed annotation to be reported (the error is
		// overwritten by SetControllerReference's result when a scheme is given): observed only.
		if err == nil {
			ctx.Count("C10.malformed-annotation-unreported")
		}
	} else if err != nil {
		attrs["err"] = err.Error()
		ctx.Violation("C10", "C10.create-error", attrs, desc)
		return
	}
	key := fmt.Sprintf("%d|%d|%v|%v|%v|%v|%v|%v|%d", nc, affKind, affMode, keysOf(annFor), keysOf(setFor), malformed, tplt.Spec.NodeSelector != nil, tplt.Labels == nil, userTol)
	if len(annFor) > 0 || setting != nil {
		if ctx.Distinct("nontrivial", key) {
			ctx.Sample(desc)
		}
	}
	ctx.Distinct("tuples", key)
	fail := func(rule string, detail string) {
		d := map[string]any{"case": desc, "detail": detail}
		ctx.Violation("C10", rule, attrs, d)
	}
	// --- creation oracle
	for _, c := range pod.Spec.Containers {
		var want corev1.ResourceRequirements
		for _, tc := range tplt.Spec.Containers {
			if tc.Name == c.Name {
				want = tc.Resources
			}
		}
		if x, ok := setFor[c.Name]; ok {
			want = x
		}
		if x, ok := annFor[c.Name]; ok {
			want = x
		}
		if !apiequality.Semantic.DeepEqual(want, c.Resources) {
			fail("C10.resources-precedence", fmt.Sprintf("%s want=%v got=%v", c.Name, want, c.Resources))
		}
	}
	if len(pod.Spec.Containers) != nc {
		fail("C10.containers", "container count changed")
	}
	if kit.NodeOfPod(pod) != "n1" {
		fail("C10.pinned", fmt.Sprintf("nodeOf=%q affinity=%s", kit.NodeOfPod(pod), core.JSON(pod.Spec.Affinity)))
	}
	// the controller's own reading of which node a pod is for must give the node it was created for
	// (otherwise the pod is cleaned up as sitting on an unknown node and re-created on every sync)
	if got, err := podutils.GetNodeNameFromPod(pod); err != nil || got != "n1" {
		fail("C10.read-back", fmt.Sprintf("GetNodeNameFromPod=%q err=%v affinity=%s", got, err, core.JSON(pod.Spec.Affinity)))
	}
	if affMode && pod.Spec.NodeName != "" {
		fail("C10.pinned", "nodeName set in affinity mode")
	}
	if !affMode && pod.Spec.NodeName != "n1" {
		fail("C10.pinned", "nodeName wrong")
	}
	if affMode && affKind == 4 {
		// user expressions of each term must be preserved next to the pin
		terms := pod.Spec.Affinity.NodeAffinity.RequiredDuringSchedulingIgnoredDuringExecution.NodeSelectorTerms
		if len(terms) != 3 || len(terms[0].MatchExpressions) != 1 || len(terms[2].MatchExpressions) != 1 {
			fail("C10.affinity-preserved", core.JSON(terms))
		}
	}
	if pod.Labels[v1.ExtendedDaemonSetNameLabelKey] != "eds" || pod.Labels[v1.ExtendedDaemonSetReplicaSetNameLabelKey] != "rs-1" {
		fail("C10.labels", core.JSON(pod.Labels))
	}
	if tplt.Labels != nil && pod.Labels["app"] != "x" {
		fail("C10.labels", "template label lost")
	}
	if pod.Annotations[v1.MD5ExtendedDaemonSetAnnotationKey] != h {
		fail("C10.template-hash", pod.Annotations[v1.MD5ExtendedDaemonSetAnnotationKey])
	}
	if pod.Namespace != "ns" || pod.GenerateName != "rs-1-" || pod.Name != "" {
		fail("C10.naming", pod.Namespace+"/"+pod.GenerateName+"/"+pod.Name)
	}
	ownerOK := false
	for _, o := range pod.OwnerReferences {
		if o.Kind == "ExtendedDaemonSetReplicaSet" && o.Name == "rs-1" && o.UID == "u-rs" && o.Controller != nil && *o.Controller {
			ownerOK = true
		}
	}
	if !ownerOK {
		fail("C10.owner", core.JSON(pod.OwnerReferences))
	}
	for _, st := range podutils.StandardDaemonSetTolerations {
		found := false
		for _, t := range pod.Spec.Tolerations {
			if t == st {
				found = true
			}
		}
		if !found {
			fail("C10.tolerations", "missing "+st.Key)
		}
	}
	for _, st := range []string{"node.kubernetes.io/not-ready", "node.kubernetes.io/unreachable", "node.kubernetes.io/disk-pressure", "node.kubernetes.io/memory-pressure", "node.kubernetes.io/unschedulable", "node.kubernetes.io/network-unavailable"} {
		found := false
		for _, t := range pod.Spec.Tolerations {
			if t.Key == st && t.Operator == corev1.TolerationOpExists {
				found = true
			}
		}
		if !found {
			fail("C10.tolerations", "missing default DaemonSet toleration "+st)
		}
	}
	if userTol == 1 {
		found := false
		for _, t := range pod.Spec.Tolerations {
			if t.Key == "dedicated" {
				found = true
			}
		}
		if !found {
			fail("C10.tolerations", "template toleration lost")
		}
	}
	// the template stored in the replica set must not have been mutated by creation
	h2, _ := comparison.GenerateMD5PodTemplateSpec(&rs.Spec.Template)
	if h2 != h {
		fail("C10.template-mutated", "replica set template changed by pod creation")
	}

	// --- comparison: round trip
	ni := strategy.NewNodeItem(node, setting)
	params := &strategy.Parameters{EDSName: "eds", Replicaset: rs, Logger: logr.Discard()}
	cmp := func(p *strategy.Parameters, pd *corev1.Pod, n *strategy.NodeItem) (ok bool) {
		defer func() {
			if x := recover(); x != nil {
				fail("C10.no-panic", fmt.Sprint(x))
			}
		}()
		return strategy.VerifCompareCurrentPodWithNewPod(p, pd, n)
	}
	// what the API server would store: wire round trip
	stored := &corev1.Pod{}
	b, _ := json.Marshal(pod)
	_ = json.Unmarshal(b, stored)
	ctx.Count("C10.roundtrip")
	if !cmp(params, stored, ni) {
		fail("C10.round-trip", fmt.Sprintf("fresh pod judged outdated; annotation=%v setting=%v", keysOf(annFor), keysOf(setFor)))
	}
	// perturbation: template change
	rs2 := rs.DeepCopy()
	rs2.Spec.Template.Spec.Containers[r.Intn(nc)].Image = "img2"
	rs2.Spec.TemplateGeneration, _ = comparison.GenerateMD5PodTemplateSpec(&rs2.Spec.Template)
	ctx.Count("C10.perturb-template")
	if cmp(&strategy.Parameters{EDSName: "eds", Replicaset: rs2, Logger: logr.Discard()}, stored, ni) {
		fail("C10.detect-template-change", "")
	}
	// perturbation: annotation value change / removal / addition
	if len(annFor) > 0 {
		n2 := node.DeepCopy()
		for k := range annFor {
			ak := fmt.Sprintf(v1.ExtendedDaemonSetRessourceNodeAnnotationKey, "ns", "eds", k)
			if r.Intn(2) == 0 {
				n2.Annotations[ak] = `{"requests":{"cpu":"7"}}`
			} else {
				delete(n2.Annotations, ak)
			}
			break
		}
		ctx.Count("C10.perturb-annotation")
		if cmp(params, stored, strategy.NewNodeItem(n2, setting)) {
			fail("C10.detect-annotation-change", "")
		}
	} else if !malformed {
		n2 := node.DeepCopy()
		n2.Annotations[fmt.Sprintf(v1.ExtendedDaemonSetRessourceNodeAnnotationKey, "ns", "eds", "c0")] = `{"requests":{"cpu":"7"}}`
		ctx.Count("C10.perturb-annotation")
		if cmp(params, stored, strategy.NewNodeItem(n2, setting)) {
			fail("C10.detect-annotation-change", "annotation added")
		}
	}
	// unrelated annotation changes must not make the pod outdated
	{
		n3 := node.DeepCopy()
		n3.Annotations["unrelated"] = "y"
		n3.Annotations[fmt.Sprintf(v1.ExtendedDaemonSetRessourceNodeAnnotationKey, "ns", "eds2", "c0")] = `{"requests":{"cpu":"7"}}`
		if both == 0 && !cmp(params, stored, strategy.NewNodeItem(n3, setting)) {
			fail("C10.round-trip", "unrelated node annotation change made the pod outdated")
		}
	}
	// perturbation: a resource value demanded by the setting differs from the pod's
	if setting != nil && len(setFor) > 0 {
		s2 := setting.DeepCopy()
		for i := range s2.Spec.Containers {
			cn := s2.Spec.Containers[i].Name
			if _, inTpl := setFor[cn]; !inTpl {
				continue
			}
			if _, overridden := annFor[cn]; overridden {
				continue
			}
			if s2.Spec.Containers[i].Resources.Requests == nil {
				s2.Spec.Containers[i].Resources.Requests = corev1.ResourceList{}
			}
			s2.Spec.Containers[i].Resources.Requests["cpu"] = resource.MustParse("9")
			ctx.Count("C10.perturb-setting")
			if cmp(params, stored, strategy.NewNodeItem(node, s2)) {
				fail("C10.detect-setting-change", cn)
			}
			// the setting now also demands a quantity of zero for a resource the pod does not mention at all
			// ("reserve nothing" is a value, its absence is none)
			s3 := setting.DeepCopy()
			if s3.Spec.Containers[i].Resources.Requests == nil {
				s3.Spec.Containers[i].Resources.Requests = corev1.ResourceList{}
			}
			s3.Spec.Containers[i].Resources.Requests["ephemeral-storage"] = resource.MustParse("0")
			ctx.Count("C10.perturb-setting")
			if cmp(params, stored, strategy.NewNodeItem(node, s3)) {
				fail("C10.detect-setting-change", cn+" (zero quantity for a resource the pod lacks)")
			}
			break
		}
	}
}

func keysOf(m map[string]corev1.ResourceRequirements) []string {
	out := []string{}
	for i := 0; i < 4; i++ {
		k := fmt.Sprintf("c%d", i)
		if _, ok := m[k]; ok {
			out = append(out, k)
		}
	}
	return out
}
