package fn

import (
	"fmt"
	"time"

	corev1 "k8s.io/api/core/v1"
	metav1 "k8s.io/apimachinery/pkg/apis/meta/v1"

	v1 "github.com/DataDog/extendeddaemonset/api/v1alpha1"

	"vh/core"
	"vh/kit"
	"vh/oracle"
	"vh/simapi"
)

// C14 engine (function part): EDS status function over prepared stores.
type C14 struct{}

func (e *C14) Name() string { return "fn.c14" }
func (e *C14) Rule() string {
	return "seeded prepared stores: up to three replica sets (active A, up-to-date B, leftover C) with random consistent counters, roles (B already active or canary), Canary-Paused/Canary-Failed conditions, pause/freeze/canary-paused annotations, with or without canary strategy; one real EDS Reconcile each, written status compared with the documented status function; non-trivial = distinct (roles, conditions, annotations, counters) tuples"
}
func (e *C14) Cases(tier string, _ int64) int {
	if tier == "thorough" {
		return 640
	}
	return 64
}
func (e *C14) Floors(string) map[string]int {
	return map[string]int{"C14.judged": 10000, "C14.canary-active": 2000, "C14.canary-failed": 500, "C14.canary-paused": 500}
}

func (e *C14) Run(ctx *core.Ctx, idx int) {
	for i := 0; i < 250; i++ {
		e.one(ctx)
	}
}

func (e *C14) one(ctx *core.Ctx) {
	r := ctx.Rand
	now := kit.T0
	simapi.SetNow(now)
	s := simapi.NewStore()
	hasCanary := r.Intn(3) != 0
	var canary *v1.ExtendedDaemonSetSpecStrategyCanary
	if hasCanary {
		canary = &v1.ExtendedDaemonSetSpecStrategyCanary{Replicas: kit.IS(1), Duration: &metav1.Duration{Duration: time.Hour}}
	}
	eds := kit.NewEDS("ns", "foo", "B", canary)
	eds.UID = "uid-eds"
	if r.Intn(4) == 0 {
		eds.Annotations[v1.ExtendedDaemonSetRollingUpdatePausedAnnotationKey] = []string{"true", "false"}[r.Intn(2)]
	}
	if r.Intn(4) == 0 {
		eds.Annotations[v1.ExtendedDaemonSetRolloutFrozenAnnotationKey] = []string{"true", "false"}[r.Intn(2)]
	}
	if r.Intn(4) == 0 {
		eds.Annotations[v1.ExtendedDaemonSetCanaryPausedAnnotationKey] = []string{"true", "true", "false"}[r.Intn(3)]
		if r.Intn(2) == 0 {
			eds.Annotations[v1.ExtendedDaemonSetCanaryPausedReasonAnnotationKey] = "CrashLoopBackOff"
		}
	}
	rst := func() v1.ExtendedDaemonSetReplicaSetStatus {
		d := int32(r.Intn(5))
		c := int32(r.Intn(int(d) + 1))
		rd := int32(r.Intn(int(c) + 1))
		av := int32(r.Intn(int(rd) + 1))
		return v1.ExtendedDaemonSetReplicaSetStatus{Desired: d, Current: c, Ready: rd, Available: av, IgnoredUnresponsiveNodes: int32(r.Intn(2))}
	}
	rsA := kit.NewRS(s, eds, "foo-a", kit.Tpl("A"), now.Add(-time.Hour))
	rsB := kit.NewRS(s, eds, "foo-b", kit.Tpl("B"), now.Add(-time.Minute))
	rsC := kit.NewRS(s, eds, "foo-c", kit.Tpl("C"), now.Add(-2*time.Hour))
	rsA.Status, rsB.Status, rsC.Status = rst(), rst(), rst()
	rsC.Status.Desired = 0
	sameActive := r.Intn(3) == 0
	condPaused := r.Intn(5) == 0
	failed := r.Intn(5) == 0
	if condPaused {
		rsB.Status.Conditions = append(rsB.Status.Conditions, v1.ExtendedDaemonSetReplicaSetCondition{Type: v1.ConditionTypeCanaryPaused, Status: corev1.ConditionTrue, Reason: "ImagePullBackOff"})
	}
	if failed {
		rsB.Status.Conditions = append(rsB.Status.Conditions, v1.ExtendedDaemonSetReplicaSetCondition{Type: v1.ConditionTypeCanaryFailed, Status: corev1.ConditionTrue, LastTransitionTime: metav1.NewTime(now.Add(-time.Second))})
	}
	withC := r.Intn(2) == 0
	// a replica set that is being deleted behind a finalizer (foreground deletion) still exists, still has pods
	// and still publishes its status: it counts like any other
	switch r.Intn(8) {
	case 0:
		dt := metav1.NewTime(now.Add(-5 * time.Second))
		rsA.DeletionTimestamp, rsA.Finalizers = &dt, []string{"foregroundDeletion"}
		ctx.Count("C14.points-with-terminating-replicaset")
	case 1:
		dt := metav1.NewTime(now.Add(-5 * time.Second))
		rsC.DeletionTimestamp, rsC.Finalizers = &dt, []string{"foregroundDeletion"}
		rsC.Status.Current, rsC.Status.Ready, rsC.Status.Available = 2, 1, 1
		ctx.Count("C14.points-with-terminating-replicaset")
	}
	all := []*v1.ExtendedDaemonSetReplicaSet{rsB}
	if sameActive {
		eds.Status.ActiveReplicaSet = "foo-b"
	} else {
		eds.Status.ActiveReplicaSet = "foo-a"
		all = append(all, rsA)
		if hasCanary && r.Intn(4) != 0 {
			eds.Status.Canary = &v1.ExtendedDaemonSetStatusCanary{ReplicaSet: "foo-b", Nodes: []string{"n0"}}
		}
	}
	if withC {
		all = append(all, rsC)
	}
	// stale previous status values must be overwritten
	eds.Status.Current, eds.Status.Ready, eds.Status.Desired, eds.Status.UpToDate = int32(r.Intn(9)), int32(r.Intn(9)), int32(r.Intn(9)), int32(r.Intn(9))
	eds.Status.Reason = []v1.ExtendedDaemonSetStatusReason{"", "", "CrashLoopBackOff", "ImagePullBackOff"}[r.Intn(4)]
	eds.Status.State = []v1.ExtendedDaemonSetStatusState{"", v1.ExtendedDaemonSetStatusStateCanary, v1.ExtendedDaemonSetStatusStateRunning, v1.ExtendedDaemonSetStatusStateCanaryFailed}[r.Intn(4)]
	// conditions left by earlier reconciles, possibly about another replica set and another cause
	switch r.Intn(4) {
	case 0:
		eds.Status.Conditions = append(eds.Status.Conditions, v1.ExtendedDaemonSetCondition{Type: v1.ConditionTypeEDSCanaryPaused, Status: corev1.ConditionTrue, Reason: "Unknown", Message: "canary paused with ers: foo-old",
			LastTransitionTime: metav1.NewTime(now.Add(-time.Minute)), LastUpdateTime: metav1.NewTime(now.Add(-time.Minute))})
	case 1:
		eds.Status.Conditions = append(eds.Status.Conditions, v1.ExtendedDaemonSetCondition{Type: v1.ConditionTypeEDSCanaryPaused, Status: corev1.ConditionFalse,
			LastTransitionTime: metav1.NewTime(now.Add(-time.Minute)), LastUpdateTime: metav1.NewTime(now.Add(-time.Minute))})
	}
	s.Inject(eds)
	for _, rs := range all {
		s.Inject(rs)
	}
	s.Inject(kit.Node("n0", nil))
	s.Inject(kit.Node("n1", nil))
	ctl := kit.NewControllers(s, kit.CtlOpts{})
	out := ctl.Reconcile("eds", "ns", "foo", "fn")
	ctx.Count("evaluations")
	desc := map[string]any{"canaryStrategy": hasCanary, "upToDateAlreadyActive": sameActive, "failedCond": failed, "pausedCond": condPaused, "annotations": eds.Annotations, "leftoverRS": withC,
		"A": fmt.Sprintf("%+v", rsA.Status), "B": fmt.Sprintf("%+v", rsB.Status)}
	attrs := map[string]string{"canaryStrategy": fmt.Sprint(hasCanary), "failed": fmt.Sprint(failed)}
	if out.Panic != "" {
		attrs["panic"] = out.Panic
		ctx.Violation("C14", "C14.no-panic", attrs, desc)
		return
	}
	if out.Err != nil {
		// selecting canary nodes can legitimately fail; status is then not written
		ctx.Count("C14.reconcile-error")
		return
	}
	got := kit.GetEDS(s, "ns", "foo")
	var active *v1.ExtendedDaemonSetReplicaSet
	for _, rs := range all {
		if rs.Name == got.Status.ActiveReplicaSet {
			active = rs
		}
	}
	want := oracle.ExpectedEDSStatus(eds, all, active, rsB)
	ctx.Count("C14.judged")
	if want.CanarySet {
		ctx.Count("C14.canary-active")
	}
	if want.State == v1.ExtendedDaemonSetStatusStateCanaryFailed {
		ctx.Count("C14.canary-failed")
	}
	if want.State == v1.ExtendedDaemonSetStatusStateCanaryPaused {
		ctx.Count("C14.canary-paused")
	}
	key := fmt.Sprintf("%v|%v|%v|%v|%v|%v|%+v|%+v|%v", hasCanary, sameActive, failed, condPaused, eds.Annotations, withC, rsA.Status, rsB.Status, eds.Status.Canary != nil)
	if ctx.Distinct("nontrivial", key) && want.CanarySet {
		desc["expected"] = fmt.Sprintf("%+v", want)
		ctx.Sample(desc)
	}
	if d := oracle.DiffStatus(&got.Status, want); len(d) > 0 {
		for _, f := range d {
			a := map[string]string{"field": f, "canaryStrategy": fmt.Sprint(hasCanary), "failed": fmt.Sprint(failed)}
			desc["got"] = fmt.Sprintf("%+v", got.Status)
			desc["want"] = fmt.Sprintf("%+v", want)
			ctx.Violation("C14", "C14.status-function", a, desc)
		}
	}
}
