package fn

import (
	"fmt"
	"sort"
	"time"

	"github.com/go-logr/logr"
	corev1 "k8s.io/api/core/v1"
	metav1 "k8s.io/apimachinery/pkg/apis/meta/v1"

	v1 "github.com/DataDog/extendeddaemonset/api/v1alpha1"
	"github.com/DataDog/extendeddaemonset/controllers/extendeddaemonsetreplicaset/scheduler"
	"github.com/DataDog/extendeddaemonset/controllers/extendeddaemonsetreplicaset/strategy"

	"vh/core"
	"vh/kit"
	"vh/oracle"
	"vh/simapi"
)

// C01 engine (function part): FilterAndMapPodsByNode against the oracle partition.
type C01 struct{}

func (e *C01) Name() string { return "fn.c01" }
func (e *C01) Rule() string {
	return "seeded layouts: 1-5 nodes (zone/type/cores/exclude labels; taints of all three effects incl. tolerated standard ones) x template (nodeSelector, required affinity with several terms incl. Gt and NotIn, empty NodeAffinity, tolerations Exists/Equal/all) x 0-7 pods (on existing, ghost and ignored nodes; bound or affinity-pinned; phases Running/Pending/Failed/Unknown; terminating; equal creation times); one real FilterAndMapPodsByNode call on a fresh reconciler (virtual-clock back-off); eligibility, kept pod, duplicates, clean-up and Unknown handling compared with the oracle; CheckNodeFitness differential; non-trivial = distinct layouts with a duplicate, an ineligible-node pod or an Unknown pod"
}
func (e *C01) Cases(tier string, _ int64) int {
	if tier == "thorough" {
		return 800
	}
	return 80
}
func (e *C01) Floors(string) map[string]int {
	return map[string]int{"C01.fn-layouts": 15000, "C01.fn-nodes-with-duplicates": 1500, "C01.fn-pods-on-ineligible-nodes": 5000, "C01.fn-unknown-pods": 2000, "C01.fn-fitness-compared": 40000}
}

func (e *C01) Run(ctx *core.Ctx, idx int) {
	for i := 0; i < 250; i++ {
		e.one(ctx)
	}
}

func (e *C01) one(ctx *core.Ctx) {
	r := ctx.Rand
	t0 := kit.T0
	simapi.SetNow(t0)
	s := simapi.NewStore()
	ctl := kit.NewControllers(s, kit.CtlOpts{})
	rec := ctl.ERS
	tpl := corev1.PodTemplateSpec{Spec: corev1.PodSpec{Containers: []corev1.Container{{Name: "c", Image: "i"}}}}
	if r.Intn(3) == 0 {
		tpl.Spec.NodeSelector = map[string]string{"zone": []string{"a", "b"}[r.Intn(2)]}
	}
	markerSel := r.Intn(6) == 0
	if markerSel {
		// a selector entry with an empty value (marker labels such as node-role.kubernetes.io/infra: ""): the
		// label has to be there, with the empty value
		if tpl.Spec.NodeSelector == nil {
			tpl.Spec.NodeSelector = map[string]string{}
		}
		tpl.Spec.NodeSelector["node-role.example.com/infra"] = ""
	}
	switch r.Intn(6) {
	case 0:
		tpl.Spec.Affinity = &corev1.Affinity{NodeAffinity: &corev1.NodeAffinity{RequiredDuringSchedulingIgnoredDuringExecution: &corev1.NodeSelector{NodeSelectorTerms: []corev1.NodeSelectorTerm{{MatchExpressions: []corev1.NodeSelectorRequirement{{Key: "exclude", Operator: corev1.NodeSelectorOpNotIn, Values: []string{"foo"}}}}}}}}
	case 1:
		tpl.Spec.Affinity = &corev1.Affinity{NodeAffinity: &corev1.NodeAffinity{RequiredDuringSchedulingIgnoredDuringExecution: &corev1.NodeSelector{NodeSelectorTerms: []corev1.NodeSelectorTerm{
			{MatchExpressions: []corev1.NodeSelectorRequirement{{Key: "type", Operator: corev1.NodeSelectorOpIn, Values: []string{"x"}}}},
			{MatchExpressions: []corev1.NodeSelectorRequirement{{Key: "cores", Operator: corev1.NodeSelectorOpGt, Values: []string{"4"}}, {Key: "zone", Operator: corev1.NodeSelectorOpExists}}},
		}}}}
	case 2:
		tpl.Spec.Affinity = &corev1.Affinity{NodeAffinity: &corev1.NodeAffinity{}}
	case 3:
		tpl.Spec.Affinity = &corev1.Affinity{NodeAffinity: &corev1.NodeAffinity{RequiredDuringSchedulingIgnoredDuringExecution: &corev1.NodeSelector{NodeSelectorTerms: []corev1.NodeSelectorTerm{
			{MatchExpressions: []corev1.NodeSelectorRequirement{{Key: "type", Operator: corev1.NodeSelectorOpDoesNotExist}}, MatchFields: []corev1.NodeSelectorRequirement{{Key: "metadata.name", Operator: corev1.NodeSelectorOpNotIn, Values: []string{"n0"}}}},
			{}, // empty term matches nothing
		}}}}
	}
	switch r.Intn(7) {
	case 4: // every key, but one effect only
		tpl.Spec.Tolerations = []corev1.Toleration{{Operator: corev1.TolerationOpExists, Effect: corev1.TaintEffectNoSchedule}}
	case 5:
		tpl.Spec.Tolerations = []corev1.Toleration{{Operator: corev1.TolerationOpExists, Effect: corev1.TaintEffectNoExecute}}
	case 6: // a keyed toleration for the wrong effect next to an every-key one for the other effect
		tpl.Spec.Tolerations = []corev1.Toleration{{Key: "evict", Operator: corev1.TolerationOpExists, Effect: corev1.TaintEffectNoSchedule}, {Operator: corev1.TolerationOpExists, Effect: corev1.TaintEffectNoSchedule}}
	case 0:
		tpl.Spec.Tolerations = []corev1.Toleration{{Operator: corev1.TolerationOpExists}}
	case 1:
		tpl.Spec.Tolerations = []corev1.Toleration{{Key: "dedicated", Operator: corev1.TolerationOpEqual, Value: "x", Effect: corev1.TaintEffectNoSchedule}}
	case 2:
		tpl.Spec.Tolerations = []corev1.Toleration{{Key: "dedicated", Operator: corev1.TolerationOpExists}}
	}
	rs := &v1.ExtendedDaemonSetReplicaSet{ObjectMeta: metav1.ObjectMeta{Name: "rs", Namespace: "ns", UID: "u"}, Spec: v1.ExtendedDaemonSetReplicaSetSpec{Template: tpl, TemplateGeneration: hashOK}}
	nn := 1 + r.Intn(5)
	nl := &strategy.NodeList{}
	nodeBy := map[string]*corev1.Node{}
	for i := 0; i < nn; i++ {
		n := &corev1.Node{ObjectMeta: metav1.ObjectMeta{Name: fmt.Sprintf("n%d", i), Labels: map[string]string{}}}
		if r.Intn(4) != 0 {
			n.Labels["zone"] = []string{"a", "b"}[r.Intn(2)]
		}
		if r.Intn(2) == 0 {
			n.Labels["type"] = []string{"x", "y"}[r.Intn(2)]
		}
		if r.Intn(3) == 0 {
			n.Labels["cores"] = []string{"2", "4", "8", "many"}[r.Intn(4)]
		}
		if r.Intn(5) == 0 {
			n.Labels["exclude"] = []string{"foo", "bar"}[r.Intn(2)]
		}
		if markerSel {
			switch r.Intn(3) {
			case 0:
				n.Labels["node-role.example.com/infra"] = ""
			case 1:
				n.Labels["node-role.example.com/infra"] = "true"
			}
		}
		switch r.Intn(7) {
		case 0:
			n.Spec.Taints = []corev1.Taint{{Key: "dedicated", Value: []string{"x", "y"}[r.Intn(2)], Effect: corev1.TaintEffectNoSchedule}}
		case 1:
			n.Spec.Taints = []corev1.Taint{{Key: "node.kubernetes.io/unschedulable", Effect: corev1.TaintEffectNoSchedule}}
		case 2:
			n.Spec.Taints = []corev1.Taint{{Key: "soft", Effect: corev1.TaintEffectPreferNoSchedule}}
		case 3:
			n.Spec.Taints = []corev1.Taint{{Key: "evict", Effect: corev1.TaintEffectNoExecute}}
		case 4:
			n.Spec.Taints = []corev1.Taint{{Key: "node.kubernetes.io/not-ready", Effect: corev1.TaintEffectNoExecute}, {Key: "node.kubernetes.io/not-ready", Effect: corev1.TaintEffectNoSchedule}}
		}
		nl.Items = append(nl.Items, strategy.NewNodeItem(n, nil))
		nodeBy[n.Name] = n
	}
	// differential: oracle eligibility vs the repository's fitness check
	probe := &corev1.Pod{Spec: *tpl.Spec.DeepCopy()}
	probe.Spec.Tolerations = append(probe.Spec.Tolerations, oracle.StandardTolerations...)
	for _, n := range nodeBy {
		ctx.Count("C01.fn-fitness-compared")
		got := scheduler.CheckNodeFitness(logr.Discard(), probe, n)
		want := oracle.Eligible(n, &tpl.Spec)
		if got != want {
			ctx.Violation("C01", "C01.eligibility", map[string]string{"code": fmt.Sprint(got), "oracle": fmt.Sprint(want)}, map[string]any{"node": fmt.Sprintf("labels=%v taints=%v name=%s", n.Labels, n.Spec.Taints, n.Name), "template": fmt.Sprintf("sel=%v aff=%s tol=%v", tpl.Spec.NodeSelector, core.JSON(tpl.Spec.Affinity), tpl.Spec.Tolerations)})
		}
	}
	pl := &corev1.PodList{}
	names := []string{"ghost"}
	for n := range nodeBy {
		names = append(names, n)
	}
	sort.Strings(names)
	np := r.Intn(8)
	for i := 0; i < np; i++ {
		node := names[r.Intn(len(names))]
		p := corev1.Pod{ObjectMeta: metav1.ObjectMeta{Name: fmt.Sprintf("p%d", i), Namespace: "ns", CreationTimestamp: metav1.NewTime(t0.Add(-time.Duration(r.Intn(3)) * time.Minute))}}
		if r.Intn(3) == 0 {
			p.Spec.Affinity = &corev1.Affinity{NodeAffinity: &corev1.NodeAffinity{RequiredDuringSchedulingIgnoredDuringExecution: &corev1.NodeSelector{NodeSelectorTerms: []corev1.NodeSelectorTerm{{MatchFields: []corev1.NodeSelectorRequirement{{Key: "metadata.name", Operator: corev1.NodeSelectorOpIn, Values: []string{node}}}}}}}}
		} else {
			p.Spec.NodeName = node
		}
		p.Status.Phase = []corev1.PodPhase{corev1.PodRunning, corev1.PodRunning, corev1.PodRunning, corev1.PodPending, corev1.PodFailed, corev1.PodUnknown, corev1.PodRunning, corev1.PodSucceeded}[r.Intn(8)]
		if r.Intn(6) == 0 {
			d := metav1.NewTime(t0)
			p.DeletionTimestamp = &d
		}
		pl.Items = append(pl.Items, p)
	}
	var ignore []string
	if r.Intn(3) == 0 {
		ignore = []string{names[r.Intn(len(names))]}
	}
	var podsByNode map[*strategy.NodeItem]*corev1.Pod
	var toDelete []*corev1.Pod
	pan := ""
	func() {
		defer func() {
			if x := recover(); x != nil {
				pan = fmt.Sprint(x)
			}
		}()
		_, podsByNode, toDelete, _ = rec.FilterAndMapPodsByNode(logr.Discard(), rs, nl, pl, ignore)
	}()
	ctx.Count("evaluations")
	ctx.Count("C01.fn-layouts")
	if pan != "" {
		ctx.Violation("C01", "C01.no-panic", map[string]string{"panic": pan}, nil)
		return
	}
	ign := map[string]bool{}
	for _, x := range ignore {
		ign[x] = true
	}
	wantNodes := map[string]bool{}
	for name, n := range nodeBy {
		if !ign[name] && oracle.Eligible(n, &tpl.Spec) {
			wantNodes[name] = true
		}
	}
	gotNodes := map[string]*corev1.Pod{}
	for ni, p := range podsByNode {
		gotNodes[ni.Node.Name] = p
	}
	layout := func() map[string]any {
		var ps []string
		for i := range pl.Items {
			p := &pl.Items[i]
			ps = append(ps, fmt.Sprintf("%s node=%s bound=%v phase=%s term=%v created=-%s", p.Name, kit.NodeOfPod(p), p.Spec.NodeName != "", p.Status.Phase, p.DeletionTimestamp != nil, t0.Sub(p.CreationTimestamp.Time)))
		}
		var del []string
		for _, p := range toDelete {
			del = append(del, p.Name)
		}
		kept := map[string]string{}
		for n, p := range gotNodes {
			if p != nil {
				kept[n] = p.Name
			} else {
				kept[n] = "-"
			}
		}
		return map[string]any{"pods": ps, "ignored": ignore, "eligible": keysOfBool(wantNodes), "kept": kept, "toDelete": del}
	}
	fail := func(rule string, attrs map[string]string) {
		ctx.Violation("C01", rule, attrs, layout())
	}
	for n := range wantNodes {
		if _, ok := gotNodes[n]; !ok {
			fail("C01.fn-eligible-node-missing", nil)
		}
	}
	for n := range gotNodes {
		if !wantNodes[n] {
			fail("C01.fn-ineligible-node-targeted", nil)
		}
	}
	del := map[string]bool{}
	for _, p := range toDelete {
		del[p.Name] = true
	}
	byNode := map[string][]*corev1.Pod{}
	for i := range pl.Items {
		p := &pl.Items[i]
		byNode[kit.NodeOfPod(p)] = append(byNode[kit.NodeOfPod(p)], p)
	}
	nontrivial := false
	for node, pods := range byNode {
		for _, p := range pods {
			if p.Status.Phase == corev1.PodUnknown {
				ctx.Count("C01.fn-unknown-pods")
				nontrivial = true
				if del[p.Name] {
					fail("C01.unknown-untouched", map[string]string{"verb": "delete"})
				}
			}
		}
		if ign[node] {
			for _, p := range pods {
				if del[p.Name] {
					fail("C01.fn-ignored-node-pod-deleted", nil)
				}
			}
			continue
		}
		if !wantNodes[node] {
			for _, p := range pods {
				ctx.Count("C01.fn-pods-on-ineligible-nodes")
				nontrivial = true
				if p.Status.Phase != corev1.PodUnknown && p.DeletionTimestamp == nil && !del[p.Name] {
					fail("C01.ineligible-cleanup", map[string]string{"role": "fn", "node-in-view": fmt.Sprint(nodeBy[node] != nil)})
				}
			}
			continue
		}
		var such, failed []*corev1.Pod
		for _, p := range pods {
			switch p.Status.Phase {
			case corev1.PodUnknown:
			case corev1.PodFailed:
				failed = append(failed, p)
			default:
				such = append(such, p)
			}
		}
		if len(such) >= 2 {
			ctx.Count("C01.fn-nodes-with-duplicates")
			nontrivial = true
		}
		if len(such) >= 1 {
			ord := oracle.Representative(such)
			repp := ord[0]
			attrs := map[string]string{"role": "fn", "failed-pods-on-node": fmt.Sprint(len(failed) > 0)}
			if del[repp.Name] {
				fail("C01.dup-resolution", mergeS(attrs, "cause", "representative-deleted"))
			}
			for _, p := range ord[1:] {
				if !del[p.Name] && p.DeletionTimestamp == nil {
					fail("C01.dup-resolution", mergeS(attrs, "cause", "duplicate-not-deleted"))
				}
			}
			got := gotNodes[node]
			if got == nil || got.Name != repp.Name {
				fail("C01.dup-resolution", mergeS(attrs, "cause", "kept-pod-is-not-the-representative"))
			}
		}
	}
	if nontrivial {
		if ctx.Distinct("nontrivial", fmt.Sprint(layout())) && r.Intn(200) == 0 {
			ctx.Sample(layout())
		}
	}
}

func keysOfBool(m map[string]bool) []string {
	var out []string
	for k := range m {
		out = append(out, k)
	}
	sort.Strings(out)
	return out
}

func mergeS(a map[string]string, kv ...string) map[string]string {
	out := map[string]string{}
	for k, v := range a {
		out[k] = v
	}
	for i := 0; i+1 < len(kv); i += 2 {
		out[kv[i]] = kv[i+1]
	}
	return out
}
