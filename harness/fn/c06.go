package fn

import (
	"encoding/json"
	"fmt"
	"hash/fnv"
	"math"
	"math/rand"
	"sync/atomic"
	"time"

	"github.com/go-logr/logr"
	corev1 "k8s.io/api/core/v1"
	metav1 "k8s.io/apimachinery/pkg/apis/meta/v1"
	"k8s.io/apimachinery/pkg/types"

	v1 "github.com/DataDog/extendeddaemonset/api/v1alpha1"
	"github.com/DataDog/extendeddaemonset/controllers/extendeddaemonsetreplicaset/strategy"

	"vh/core"
	"vh/kit"
)

// C06 engine: manageCanaryStatus (via shim) against canaryVerdict.
type C06 struct{}

func (e *C06) Name() string { return "fn.c06" }
func (e *C06) Rule() string {
	return "seeded canary situations: 0-3 pods x restart counts {0, AP.max, AP.max+1, AF.max, AF.max+1} x waiting reason {none, 11 cannot-start reasons, ContainerCreating, unrelated} x start age {before, at, after maxSlowStartDuration} x enabled flags x threshold pairs x timeouts at/around their bounds x previous conditions x annotations; one real manageCanaryStatus call each (+ a second call for stickiness); non-trivial = distinct abstract situations in which a trigger fires or is one step below firing"
}
func (e *C06) Cases(tier string, _ int64) int {
	if tier == "thorough" {
		return 1600
	}
	return 400
}
func (e *C06) perCase(tier string) int {
	if tier == "thorough" {
		return 1500
	}
	return 500
}
func (e *C06) Floors(tier string) map[string]int {
	return map[string]int{"C06.fail-restarts-fired": 500, "C06.fail-restarts-justbelow": 500, "C06.fail-span-fired": 300, "C06.fail-timeout-fired": 300,
		"C06.pause-cannotstart-fired": 500, "C06.pause-restarts-fired": 500, "C06.pause-slowstart-fired": 100, "C06.unpause-applied": 300, "C06.sticky-second-call": 300}
}

type c06Pod struct {
	Restarts    int32
	Waiting     string
	StartAgo    time.Duration
	FinishAgo   time.Duration
	UpToDate    bool
	Terminating bool
	InitC       bool // restart count carried by an init container status
	Sibling     bool // another regular container is listed before the one described here
	NoLastState bool // the restart count is reported, the last termination is not (lastState: {}, as after a kubelet restart or container garbage collection)
}

type c06Case struct {
	Pods           []c06Pod
	APEnabled      bool
	APMax          int32
	AFEnabled      bool
	AFMax          int32
	MaxSlow        *time.Duration
	MaxRestartsDur *time.Duration
	CanaryTimeout  *time.Duration
	PrevPaused     bool
	PrevFailed     bool
	RestartSpan    *time.Duration
	CanaryAge      *time.Duration
	AnnPaused      string
	AnnUnpaused    string
	AnnFrozen      bool // rollout-frozen=true on the ExtendedDaemonSet: no business of the canary verdict
	Missing        int
}

func dptr(d time.Duration) *time.Duration { return &d }

var cannotStartReasons = []string{"ErrImagePull", "ImagePullBackOff", "ImageInspectError", "ErrImageNeverPull", "RegistryUnavailable", "InvalidImageName",
	"CreateContainerConfigError", "CreateContainerError", "PreStartHookError", "PostStartHookError", "PreCreateHookError"}
var cannotStartSet = func() map[string]bool {
	m := map[string]bool{}
	for _, r := range cannotStartReasons {
		m[r] = true
	}
	return m
}()

func c06Gen(r *rand.Rand) c06Case {
	c := c06Case{}
	c.APEnabled = r.Intn(4) != 0
	c.AFEnabled = r.Intn(4) != 0
	pairs := [][2]int32{{1, 1}, {1, 3}, {2, 5}, {0, 0}, {2, 2}, {1, 1}, {1, 3}, {2, 5}, {0, 0}, {2, 2}, {2, math.MaxInt32}, {math.MaxInt32, math.MaxInt32}, {1000, 5000}}
	pr := pairs[r.Intn(len(pairs))]
	c.APMax, c.AFMax = pr[0], pr[1]
	if r.Intn(2) == 0 {
		c.MaxSlow = dptr([]time.Duration{time.Minute, 10 * time.Second}[r.Intn(2)])
	}
	if r.Intn(2) == 0 {
		c.MaxRestartsDur = dptr(5 * time.Minute)
	}
	if r.Intn(2) == 0 {
		c.CanaryTimeout = dptr(30 * time.Minute)
	}
	c.PrevPaused = r.Intn(4) == 0
	c.PrevFailed = r.Intn(8) == 0
	if r.Intn(2) == 0 {
		c.RestartSpan = dptr([]time.Duration{0, 5*time.Minute - time.Second, 5 * time.Minute, 5*time.Minute + time.Second, 10 * time.Minute}[r.Intn(5)])
	}
	if r.Intn(4) != 0 {
		c.CanaryAge = dptr([]time.Duration{time.Minute, 30*time.Minute - time.Second, 30 * time.Minute, 30*time.Minute + time.Second, time.Hour}[r.Intn(5)])
	}
	c.AnnPaused = []string{"", "true", "false"}[r.Intn(3)]
	c.AnnUnpaused = []string{"", "", "true", "false"}[r.Intn(4)]
	c.AnnFrozen = r.Intn(6) == 0
	n := r.Intn(4)
	for i := 0; i < n; i++ {
		p := c06Pod{UpToDate: r.Intn(8) != 0, Terminating: r.Intn(10) == 0, InitC: r.Intn(6) == 0}
		p.Restarts = []int32{0, 0, c.APMax, c.APMax + 1, c.AFMax, c.AFMax + 1}[r.Intn(6)]
		if p.Restarts < 0 {
			p.Restarts = math.MaxInt32 // (the limit is the largest int32: nothing is above it)
		}
		switch r.Intn(8) {
		case 0, 1, 2:
			p.Waiting = ""
		case 3, 4:
			p.Waiting = cannotStartReasons[r.Intn(len(cannotStartReasons))]
		case 5:
			p.Waiting = "ContainerCreating"
		case 6:
			p.Waiting = "CrashLoopBackOff"
		case 7:
			p.Waiting = "PodInitializing"
		}
		slow := time.Minute
		if c.MaxSlow != nil {
			slow = *c.MaxSlow
		}
		p.StartAgo = []time.Duration{slow - time.Second, slow, slow + time.Second, 10 * slow}[r.Intn(4)]
		p.FinishAgo = []time.Duration{10 * time.Second, 3 * time.Minute}[r.Intn(2)]
		p.Sibling = !p.InitC && r.Intn(4) == 0
		p.NoLastState = p.Restarts > 0 && r.Intn(5) == 0
		c.Pods = append(c.Pods, p)
	}
	c.Missing = r.Intn(2)
	return c
}

func c06Build(c c06Case, now time.Time) (map[string]string, *strategy.Parameters) {
	canary := &v1.ExtendedDaemonSetSpecStrategyCanary{
		AutoPause: &v1.ExtendedDaemonSetSpecStrategyCanaryAutoPause{Enabled: &c.APEnabled, MaxRestarts: &c.APMax},
		AutoFail:  &v1.ExtendedDaemonSetSpecStrategyCanaryAutoFail{Enabled: &c.AFEnabled, MaxRestarts: &c.AFMax},
	}
	if c.MaxSlow != nil {
		canary.AutoPause.MaxSlowStartDuration = &metav1.Duration{Duration: *c.MaxSlow}
	}
	if c.MaxRestartsDur != nil {
		canary.AutoFail.MaxRestartsDuration = &metav1.Duration{Duration: *c.MaxRestartsDur}
	}
	if c.CanaryTimeout != nil {
		canary.AutoFail.CanaryTimeout = &metav1.Duration{Duration: *c.CanaryTimeout}
	}
	rs := &v1.ExtendedDaemonSetReplicaSet{ObjectMeta: metav1.ObjectMeta{Name: "rs", Namespace: "ns"}, Spec: v1.ExtendedDaemonSetReplicaSetSpec{TemplateGeneration: hashOK}}
	addCond := func(t v1.ExtendedDaemonSetReplicaSetConditionType, st corev1.ConditionStatus, trans, upd time.Time) {
		rs.Status.Conditions = append(rs.Status.Conditions, v1.ExtendedDaemonSetReplicaSetCondition{Type: t, Status: st, LastTransitionTime: metav1.NewTime(trans), LastUpdateTime: metav1.NewTime(upd)})
	}
	if c.CanaryAge != nil {
		addCond(v1.ConditionTypeCanary, corev1.ConditionTrue, now.Add(-*c.CanaryAge), now.Add(-*c.CanaryAge))
	}
	if c.PrevPaused {
		addCond(v1.ConditionTypeCanaryPaused, corev1.ConditionTrue, now.Add(-time.Minute), now.Add(-time.Minute))
	}
	if c.PrevFailed {
		addCond(v1.ConditionTypeCanaryFailed, corev1.ConditionTrue, now.Add(-time.Minute), now.Add(-time.Minute))
	}
	if c.RestartSpan != nil {
		addCond(v1.ConditionTypePodRestarting, corev1.ConditionTrue, now.Add(-20*time.Minute), now.Add(-20*time.Minute).Add(*c.RestartSpan))
	}
	params := &strategy.Parameters{
		EDSName: "eds", Strategy: &v1.ExtendedDaemonSetSpecStrategy{Canary: canary}, Replicaset: rs,
		NewStatus: rs.Status.DeepCopy(), Logger: logr.Discard(),
		NodeByName: map[string]*strategy.NodeItem{}, PodByNodeName: map[*strategy.NodeItem]*corev1.Pod{},
	}
	for i, ps := range c.Pods {
		name := fmt.Sprintf("n%d", i)
		ni := strategy.NewNodeItem(&corev1.Node{ObjectMeta: metav1.ObjectMeta{Name: name}}, nil)
		params.NodeByName[name] = ni
		params.CanaryNodes = append(params.CanaryNodes, name)
		h := hashOK
		if !ps.UpToDate {
			h = "OLD"
		}
		st := metav1.NewTime(now.Add(-ps.StartAgo))
		pod := &corev1.Pod{ObjectMeta: metav1.ObjectMeta{Name: "pod-" + name, Namespace: "ns", Annotations: map[string]string{v1.MD5ExtendedDaemonSetAnnotationKey: h}},
			Spec:   corev1.PodSpec{NodeName: name},
			Status: corev1.PodStatus{StartTime: &st, Phase: corev1.PodRunning}}
		if ps.Terminating {
			d := metav1.NewTime(now)
			pod.DeletionTimestamp = &d
		}
		cs := corev1.ContainerStatus{Name: "c", RestartCount: ps.Restarts}
		if ps.Restarts > 0 && !ps.NoLastState {
			cs.LastTerminationState = corev1.ContainerState{Terminated: &corev1.ContainerStateTerminated{Reason: "Error", FinishedAt: metav1.NewTime(now.Add(-ps.FinishAgo))}}
		}
		if ps.Waiting != "" {
			cs.State = corev1.ContainerState{Waiting: &corev1.ContainerStateWaiting{Reason: ps.Waiting}}
		} else {
			cs.State = corev1.ContainerState{Running: &corev1.ContainerStateRunning{StartedAt: st}}
		}
		if ps.InitC {
			main := corev1.ContainerStatus{Name: "main", State: corev1.ContainerState{Running: &corev1.ContainerStateRunning{StartedAt: st}}}
			if ps.Waiting != "" {
				// while an init container has not completed, the kubelet reports every regular container
				// as waiting with reason PodInitializing (listed before the init container statuses)
				main.State = corev1.ContainerState{Waiting: &corev1.ContainerStateWaiting{Reason: "PodInitializing"}}
			}
			pod.Status.ContainerStatuses = []corev1.ContainerStatus{main}
			pod.Status.InitContainerStatuses = []corev1.ContainerStatus{cs}
		} else if ps.Sibling {
			// a second regular container, listed first, waiting for an unrelated reason and never restarted
			sib := corev1.ContainerStatus{Name: "a-first", State: corev1.ContainerState{Waiting: &corev1.ContainerStateWaiting{Reason: "CrashLoopBackOff"}}}
			pod.Status.ContainerStatuses = []corev1.ContainerStatus{sib, cs}
		} else {
			pod.Status.ContainerStatuses = []corev1.ContainerStatus{cs}
		}
		params.PodByNodeName[ni] = pod
	}
	for i := 0; i < c.Missing; i++ {
		name := fmt.Sprintf("m%d", i)
		ni := strategy.NewNodeItem(&corev1.Node{ObjectMeta: metav1.ObjectMeta{Name: name}}, nil)
		params.NodeByName[name] = ni
		params.CanaryNodes = append(params.CanaryNodes, name)
		params.PodByNodeName[ni] = nil
	}
	ann := map[string]string{}
	if c.AnnPaused != "" {
		ann[v1.ExtendedDaemonSetCanaryPausedAnnotationKey] = c.AnnPaused
	}
	if c.AnnUnpaused != "" {
		ann[v1.ExtendedDaemonSetCanaryUnpausedAnnotationKey] = c.AnnUnpaused
	}
	if c.AnnFrozen {
		ann[v1.ExtendedDaemonSetRolloutFrozenAnnotationKey] = "true"
		ann[v1.ExtendedDaemonSetRollingUpdatePausedAnnotationKey] = "true"
	}
	return ann, params
}

type c06Verdict struct {
	Failed, Paused                                               bool
	Evaluable                                                    int
	FailRestarts, FailSpan, FailTimeout                          bool
	PauseCannotStart, PauseRestarts, PauseSlowStart, UnpauseUsed bool
	BelowFailRestarts                                            bool
}

// canaryVerdict is the reference (DESIGN.md C06).
func canaryVerdict(c c06Case) c06Verdict {
	var v c06Verdict
	var ev []c06Pod
	for _, p := range c.Pods {
		if p.UpToDate && !p.Terminating {
			ev = append(ev, p)
		}
	}
	v.Evaluable = len(ev)
	v.Failed = c.PrevFailed
	if len(ev) > 0 && c.AFEnabled {
		for _, p := range ev {
			if p.Restarts > c.AFMax {
				v.Failed, v.FailRestarts = true, true
			} else if p.Restarts == c.AFMax {
				v.BelowFailRestarts = true
			}
		}
		if c.MaxRestartsDur != nil && c.RestartSpan != nil && *c.RestartSpan > *c.MaxRestartsDur {
			v.Failed, v.FailSpan = true, true
		}
		if c.CanaryTimeout != nil && c.CanaryAge != nil && *c.CanaryAge > *c.CanaryTimeout {
			v.Failed, v.FailTimeout = true, true
		}
	}
	prevPaused := c.PrevPaused || c.AnnPaused == "true"
	if c.AnnUnpaused == "true" {
		v.UnpauseUsed = prevPaused
		v.Paused = false
		return v
	}
	v.Paused = prevPaused
	if c.APEnabled {
		for _, p := range ev {
			cs := cannotStartSet[p.Waiting]
			if cs && c.MaxSlow != nil && p.StartAgo <= *c.MaxSlow {
				cs = false
			}
			if cs {
				v.Paused, v.PauseCannotStart = true, true
			}
			if p.Waiting == "ContainerCreating" && c.MaxSlow != nil && p.StartAgo > *c.MaxSlow {
				v.Paused, v.PauseSlowStart = true, true
			}
			if p.Restarts > c.APMax {
				v.Paused, v.PauseRestarts = true, true
			}
		}
	}
	return v
}

func (e *C06) Run(ctx *core.Ctx, idx int) {
	now := kit.T0
	for i := 0; i < e.perCase(ctx.Tier); i++ {
		c := c06Gen(ctx.Rand)
		e.judge(ctx, c, now)
	}
}

func durS(d *time.Duration) string {
	if d == nil {
		return "nil"
	}
	return d.String()
}

func (e *C06) abstract(c c06Case, v c06Verdict) string {
	s := fmt.Sprintf("ap=%v/%d af=%v/%d slow=%s mrd=%s to=%s pp=%v pf=%v span=%s age=%s ann=%s/%s miss=%d ev=%d|", c.APEnabled, c.APMax, c.AFEnabled, c.AFMax,
		durS(c.MaxSlow), durS(c.MaxRestartsDur), durS(c.CanaryTimeout), c.PrevPaused, c.PrevFailed, durS(c.RestartSpan), durS(c.CanaryAge), c.AnnPaused, c.AnnUnpaused, c.Missing, v.Evaluable)
	for _, p := range c.Pods {
		s += fmt.Sprintf("%d,%s,%s,%v,%v;", p.Restarts, p.Waiting, p.StartAgo, p.UpToDate, p.Terminating)
	}
	return s
}

func (e *C06) judge(ctx *core.Ctx, c c06Case, now time.Time) {
	ann, params := c06Build(c, now)
	// One point in two: the same controller process already synced this replica set a while ago, when the very same
	// pod objects (same names, UIDs and resourceVersions: nothing about them changed since) were younger - typically
	// still within maxSlowStartDuration. The verdict of the sync judged here is a function of what it reads and of the
	// present instant; whatever the process kept from the earlier sync must not show in it.
	seq := atomic.AddInt64(&c06Seq, 1)
	stamp := func(p *strategy.Parameters) {
		for ni, pod := range p.PodByNodeName {
			if pod == nil {
				continue
			}
			pod.Name = fmt.Sprintf("%s-%d", pod.Name, seq)
			pod.UID = types.UID(fmt.Sprintf("uid-%d-%s", seq, ni.Node.Name))
			b, _ := json.Marshal(pod)
			h := fnv.New64a()
			_, _ = h.Write(b)
			pod.ResourceVersion = fmt.Sprint(h.Sum64() % 1000000007)
		}
		p.Replicaset.UID = types.UID(fmt.Sprintf("uid-rs-%d", seq))
	}
	stamp(params)
	if ctx.Rand.Intn(2) == 0 {
		ds := []time.Duration{20 * time.Second, 2 * time.Minute, 10 * time.Minute}
		if c.MaxSlow != nil {
			for _, ps := range c.Pods {
				if ps.StartAgo > *c.MaxSlow {
					ds = append(ds, ps.StartAgo-*c.MaxSlow/2, ps.StartAgo-*c.MaxSlow/2)
				}
			}
		}
		d := ds[ctx.Rand.Intn(len(ds))]
		ann0, params0 := c06Build(c, now)
		for ni, pod := range params0.PodByNodeName {
			if pod == nil {
				continue
			}
			for nj, q := range params.PodByNodeName {
				if q != nil && nj.Node.Name == ni.Node.Name {
					pod.Name, pod.UID, pod.ResourceVersion = q.Name, q.UID, q.ResourceVersion
				}
			}
		}
		params0.Replicaset.UID = params.Replicaset.UID
		func() {
			defer func() { _ = recover() }()
			_ = strategy.VerifManageCanaryStatus(ann0, params0, now.Add(-d))
		}()
		ctx.Count("C06.points-preceded-by-an-earlier-sync-of-the-same-pods")
	}
	var res *strategy.Result
	pan := ""
	func() {
		defer func() {
			if r := recover(); r != nil {
				pan = fmt.Sprint(r)
			}
		}()
		res = strategy.VerifManageCanaryStatus(ann, params, now)
	}()
	ctx.Count("evaluations")
	v := canaryVerdict(c)
	attrs := map[string]string{"evaluable": fmt.Sprint(minInt(v.Evaluable, 1)), "unpaused": c.AnnUnpaused, "prevPaused": fmt.Sprint(c.PrevPaused || c.AnnPaused == "true")}
	if pan != "" {
		attrs["panic"] = pan
		ctx.Violation("C06", "C06.no-panic", attrs, c)
		return
	}
	count := func(b bool, name string) {
		if b {
			ctx.Count(name)
		}
	}
	count(v.FailRestarts, "C06.fail-restarts-fired")
	count(v.BelowFailRestarts && !v.Failed, "C06.fail-restarts-justbelow")
	count(v.FailSpan, "C06.fail-span-fired")
	count(v.FailTimeout, "C06.fail-timeout-fired")
	count(!v.Failed && v.PauseCannotStart, "C06.pause-cannotstart-fired")
	count(!v.Failed && v.PauseRestarts, "C06.pause-restarts-fired")
	count(!v.Failed && v.PauseSlowStart, "C06.pause-slowstart-fired")
	count(!v.Failed && v.UnpauseUsed, "C06.unpause-applied")
	if v.Failed || v.Paused || v.BelowFailRestarts || v.UnpauseUsed {
		if ctx.Distinct("nontrivial", e.abstract(c, v)) && (v.FailRestarts || v.PauseCannotStart) {
			ctx.Sample(map[string]any{"case": c, "expected": v, "got_failed": res.IsFailed, "got_paused": res.IsPaused})
		}
	}
	failedCond := kit.CondTrue(res.NewStatus, v1.ConditionTypeCanaryFailed)
	pausedCond := kit.CondTrue(res.NewStatus, v1.ConditionTypeCanaryPaused)
	switch {
	case res.IsFailed != v.Failed:
		attrs["got"], attrs["want"] = fmt.Sprint(res.IsFailed), fmt.Sprint(v.Failed)
		ctx.Violation("C06", "C06.failed-verdict", attrs, c)
		return
	case failedCond != v.Failed:
		ctx.Violation("C06", "C06.failed-condition", attrs, c)
		return
	case !v.Failed && res.IsPaused != v.Paused:
		attrs["got"], attrs["want"] = fmt.Sprint(res.IsPaused), fmt.Sprint(v.Paused)
		rule := "C06.paused-verdict"
		if c.AnnUnpaused == "true" {
			rule = "C06.unpause-overrides"
		}
		ctx.Violation("C06", rule, attrs, c)
		return
	case !v.Failed && pausedCond != v.Paused:
		ctx.Violation("C06", "C06.paused-condition", attrs, c)
		return
	case (v.Failed || v.Paused) && len(res.PodsToCreate) > 0:
		ctx.Violation("C06", "C06.create-while-held", attrs, c)
		return
	}
	if v.Failed != (res.NewStatus.Status == string(strategy.ReplicaSetStatusCanaryFailed)) {
		ctx.Violation("C06", "C06.status-string", attrs, c)
		return
	}
	// stickiness: feed the produced status back with healthy pods; failure must persist,
	// and an unpause must not clear it.
	if v.Failed {
		c2 := c
		c2.Pods = []c06Pod{{UpToDate: true, StartAgo: 10 * time.Minute}}
		c2.AnnUnpaused = "true"
		c2.RestartSpan, c2.CanaryAge = nil, nil
		ann2, params2 := c06Build(c2, now.Add(time.Minute))
		params2.Replicaset.Status = *res.NewStatus.DeepCopy()
		params2.NewStatus = res.NewStatus.DeepCopy()
		var res2 *strategy.Result
		func() {
			defer func() { _ = recover() }()
			res2 = strategy.VerifManageCanaryStatus(ann2, params2, now.Add(time.Minute))
		}()
		ctx.Count("C06.sticky-second-call")
		if res2 == nil || !res2.IsFailed || !kit.CondTrue(res2.NewStatus, v1.ConditionTypeCanaryFailed) {
			ctx.Violation("C06", "C06.failed-sticky", attrs, c)
		}
	}
	if c06After != nil {
		c06After(ctx, c, res, now, attrs)
	}
}

var c06Seq int64

var c06After func(ctx *core.Ctx, c c06Case, res *strategy.Result, now time.Time, attrs map[string]string)

// c06RestartSpanKept: "the span between the first and the latest observed restart": once a restart
// has been observed, a later sync whose evaluated pods carry no restart (the restarted pod is
// being replaced) must not forget when the first one was seen.
func c06RestartSpanKept(ctx *core.Ctx, c c06Case, res *strategy.Result, now time.Time, attrs map[string]string) {
	rc := kit.Cond(res.NewStatus, v1.ConditionTypePodRestarting)
	if rc == nil || rc.Status != corev1.ConditionTrue {
		return
	}
	c2 := c
	c2.Pods = []c06Pod{{UpToDate: true, StartAgo: 10 * time.Minute}}
	c2.RestartSpan, c2.CanaryAge = nil, nil
	ann2, params2 := c06Build(c2, now.Add(time.Minute))
	params2.Replicaset.Status = *res.NewStatus.DeepCopy()
	params2.NewStatus = res.NewStatus.DeepCopy()
	var res2 *strategy.Result
	func() {
		defer func() { _ = recover() }()
		res2 = strategy.VerifManageCanaryStatus(ann2, params2, now.Add(time.Minute))
	}()
	ctx.Count("C06.restart-span-second-call")
	if res2 == nil {
		return
	}
	rc2 := kit.Cond(res2.NewStatus, v1.ConditionTypePodRestarting)
	if rc2 == nil || rc2.Status != corev1.ConditionTrue || !rc2.LastTransitionTime.Equal(&rc.LastTransitionTime) {
		ctx.Violation("C06", "C06.restart-span-kept", attrs, map[string]any{"case": c, "before": fmt.Sprintf("%+v", rc), "after": fmt.Sprintf("%+v", rc2)})
	}
}

func init() { c06After = c06RestartSpanKept }

func minInt(a, b int) int {
	if a < b {
		return a
	}
	return b
}
