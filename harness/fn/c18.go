package fn

import (
	"sigs.k8s.io/controller-runtime/pkg/client"

	"fmt"
	"time"

	autoscalingv1 "k8s.io/api/autoscaling/v1"
	corev1 "k8s.io/api/core/v1"
	"k8s.io/apimachinery/pkg/api/resource"
	metav1 "k8s.io/apimachinery/pkg/apis/meta/v1"

	v1 "github.com/DataDog/extendeddaemonset/api/v1alpha1"

	"vh/core"
	"vh/kit"
	"vh/simapi"
)

// C18 engine: setting populations, all reconcile orders.
type C18 struct{}

func (e *C18) Name() string { return "fn.c18" }
func (e *C18) Rule() string {
	return "seeded populations of 1-4 settings, one in twelve of 9-20 settings (creation times equal/different, matchLabels/matchExpressions/empty (select-everything) selectors, with/without reference, some being deleted behind a finalizer, optionally one unusable selector, optionally one in another namespace) x 1-4 labelled nodes; every permutation of the reconcile order (<=24), two passes each, through the real setting reconciler; then one real replica-set sync whose created pods show which setting was attached to which node; non-trivial = distinct populations with at least two settings overlapping on a node"
}
func (e *C18) Cases(tier string, _ int64) int {
	if tier == "thorough" {
		return 12000
	}
	return 1500
}
func (e *C18) Floors(string) map[string]int {
	return map[string]int{"C18.runs": 3000, "C18.overlap-populations": 100, "C18.pods-judged": 2000, "C18.broken-selector-populations": 30}
}

func perms(n int) [][]int {
	var out [][]int
	var rec func(cur []int, used []bool)
	rec = func(cur []int, used []bool) {
		if len(cur) == n {
			out = append(out, append([]int{}, cur...))
			return
		}
		for i := 0; i < n; i++ {
			if !used[i] {
				used[i] = true
				rec(append(cur, i), used)
				used[i] = false
			}
		}
	}
	rec(nil, make([]bool, n))
	return out
}

type c18Setting struct {
	Name    string
	NS      string
	HasRef  bool
	Broken  bool
	Sel     metav1.LabelSelector
	Created time.Duration
	CPU     string
	// Terminating: the setting is being deleted and a finalizer keeps it; until it is gone it is a setting like
	// any other (it still selects its nodes, still wins or loses conflicts, still applies when valid)
	Terminating bool
}

func selMatches(sel *metav1.LabelSelector, lbls map[string]string) bool {
	for k, v := range sel.MatchLabels {
		// (the label has to be present: an empty value does not match a node that lacks the key)
		if lv, has := lbls[k]; !has || lv != v {
			return false
		}
	}
	for _, e := range sel.MatchExpressions {
		val, has := lbls[e.Key]
		switch e.Operator {
		case metav1.LabelSelectorOpIn:
			ok := false
			for _, v := range e.Values {
				if has && v == val {
					ok = true
				}
			}
			if !ok {
				return false
			}
		case metav1.LabelSelectorOpNotIn:
			for _, v := range e.Values {
				if has && v == val {
					return false
				}
			}
		case metav1.LabelSelectorOpExists:
			if !has {
				return false
			}
		case metav1.LabelSelectorOpDoesNotExist:
			if has {
				return false
			}
		default:
			return false
		}
	}
	return true
}

func (e *C18) Run(ctx *core.Ctx, idx int) {
	r := ctx.Rand
	nn := 1 + r.Intn(4)
	type nodeD struct {
		Name     string
		Labels   map[string]string
		Cordoned bool // spec.unschedulable: daemon pods tolerate it, the node counts like any other
	}
	var nodes []nodeD
	for i := 0; i < nn; i++ {
		l := map[string]string{}
		if r.Intn(3) != 0 {
			l["zone"] = []string{"a", "b"}[r.Intn(2)]
		}
		if r.Intn(2) == 0 {
			l["type"] = []string{"x", "y"}[r.Intn(2)]
		}
		if r.Intn(4) == 0 {
			// a role label: key present, empty value
			l["node-role.example.com/infra"] = ""
		}
		nodes = append(nodes, nodeD{fmt.Sprintf("n%d", i), l, r.Intn(5) == 0})
	}
	ns := 1 + r.Intn(4)
	if r.Intn(12) == 0 {
		ns = 9 + r.Intn(12) // a namespace with many settings (three reconcile orders instead of all of them)
		ctx.Count("C18.populations-with-many-settings")
	}
	var sd []c18Setting
	withBroken := r.Intn(5) == 0
	for i := 0; i < ns; i++ {
		d := c18Setting{Name: fmt.Sprintf("s%d", i), NS: "ns", HasRef: r.Intn(6) != 0, Created: time.Duration(r.Intn(3)) * time.Minute, CPU: fmt.Sprintf("%d", 1+i)}
		switch r.Intn(7) {
		case 6:
			// a role label selected the usual way: the key with an empty value (nodes without the label do not match)
			d.Sel = metav1.LabelSelector{MatchLabels: map[string]string{"node-role.example.com/infra": ""}}
		case 5:
			// no matchLabels and no matchExpressions: the setting selects every node
			d.Sel = metav1.LabelSelector{}
		case 0:
			d.Sel = metav1.LabelSelector{MatchLabels: map[string]string{"zone": []string{"a", "b"}[r.Intn(2)]}}
		case 1:
			d.Sel = metav1.LabelSelector{MatchLabels: map[string]string{"type": []string{"x", "y"}[r.Intn(2)]}}
		case 2:
			d.Sel = metav1.LabelSelector{MatchExpressions: []metav1.LabelSelectorRequirement{{Key: "zone", Operator: metav1.LabelSelectorOpIn, Values: []string{"a", "b"}}}}
		case 3:
			d.Sel = metav1.LabelSelector{MatchExpressions: []metav1.LabelSelectorRequirement{{Key: "type", Operator: metav1.LabelSelectorOpExists}}}
		case 4:
			d.Sel = metav1.LabelSelector{MatchExpressions: []metav1.LabelSelectorRequirement{{Key: "zone", Operator: metav1.LabelSelectorOpNotIn, Values: []string{"a"}}}}
		}
		d.Terminating = r.Intn(6) == 0
		if withBroken && i == 0 {
			d.Broken = true
			d.Sel = metav1.LabelSelector{MatchExpressions: []metav1.LabelSelectorRequirement{{Key: "zone", Operator: "Bogus", Values: []string{"a"}}}}
		}
		sd = append(sd, d)
	}
	otherNS := r.Intn(5) == 0 // a setting of another namespace never conflicts
	match := func(d c18Setting, lbls map[string]string) bool {
		return !d.Broken && selMatches(&d.Sel, lbls)
	}
	overlapPop := false
	for i := range sd {
		for j := range sd {
			if i < j {
				for _, n := range nodes {
					if match(sd[i], n.Labels) && match(sd[j], n.Labels) {
						overlapPop = true
					}
				}
			}
		}
	}
	desc := map[string]any{"nodes": nodes, "settings": sd, "otherNamespaceSetting": otherNS}
	key := fmt.Sprint(desc)
	if overlapPop {
		ctx.Count("C18.overlap-populations")
		if ctx.Distinct("nontrivial", key) {
			ctx.Sample(desc)
		}
	}
	if withBroken {
		ctx.Count("C18.broken-selector-populations")
	}
	orders := [][]int(nil)
	if ns <= 4 {
		orders = perms(ns)
	} else {
		fwd := make([]int, ns)
		for i := range fwd {
			fwd[i] = i
		}
		rev := make([]int, ns)
		for i := range rev {
			rev[i] = ns - 1 - i
		}
		orders = [][]int{fwd, rev, r.Perm(ns)}
	}
	for _, order := range orders {
		simapi.SetNow(kit.T0)
		s := simapi.NewStore()
		for _, n := range nodes {
			nd := kit.Node(n.Name, n.Labels)
			nd.Spec.Unschedulable = n.Cordoned
			if n.Cordoned {
				nd.Spec.Taints = append(nd.Spec.Taints, corev1.Taint{Key: "node.kubernetes.io/unschedulable", Effect: corev1.TaintEffectNoSchedule})
			}
			s.Inject(nd)
		}
		mk := func(d c18Setting) *v1.ExtendedDaemonsetSetting {
			st := &v1.ExtendedDaemonsetSetting{ObjectMeta: metav1.ObjectMeta{Name: d.Name, Namespace: d.NS, CreationTimestamp: metav1.NewTime(kit.T0.Add(d.Created))}}
			if d.HasRef {
				// the same daemonset, spelled as users do (the kind string of the README, the real kind,
				// with or without apiVersion): the replica-set sync matches on the name only
				st.Spec.Reference = &autoscalingv1.CrossVersionObjectReference{Kind: "ExtendedDaemonset", Name: "foo"}
				switch int(d.Name[len(d.Name)-1]) % 3 {
				case 1:
					st.Spec.Reference = &autoscalingv1.CrossVersionObjectReference{APIVersion: "datadoghq.com/v1alpha1", Kind: "ExtendedDaemonSet", Name: "foo"}
				case 2:
					st.Spec.Reference = &autoscalingv1.CrossVersionObjectReference{Kind: "ExtendedDaemonSet", Name: "foo"}
				}
			}
			if d.Terminating {
				dt := metav1.NewTime(kit.T0.Add(d.Created).Add(time.Second))
				st.DeletionTimestamp = &dt
				st.Finalizers = []string{"example.com/hold"}
			}
			st.Spec.NodeSelector = d.Sel
			st.Spec.Containers = []v1.ExtendedDaemonsetSettingContainerSpec{{Name: "main", Resources: corev1.ResourceRequirements{Requests: corev1.ResourceList{"cpu": resource.MustParse(d.CPU)}}}}
			return st
		}
		for _, d := range sd {
			s.Inject(mk(d))
		}
		if otherNS {
			o := mk(c18Setting{Name: "zz-other", NS: "ns2", HasRef: true, Sel: metav1.LabelSelector{MatchExpressions: []metav1.LabelSelectorRequirement{{Key: "nope", Operator: metav1.LabelSelectorOpDoesNotExist}}}, CPU: "9"})
			s.Inject(o)
		}
		ctl := kit.NewControllers(s, kit.CtlOpts{})
		ctx.Count("C18.runs")
		ctx.Count("evaluations")
		attrs := map[string]string{"brokenSelectorInPopulation": fmt.Sprint(withBroken)}
		bad := false
		for pass := 0; pass < 2 && !bad; pass++ {
			for _, i := range order {
				out := ctl.Reconcile("setting", "ns", sd[i].Name, "fn")
				if out.Panic != "" {
					a := map[string]string{"panic": out.Panic}
					ctx.Violation("C18", "C18.no-panic", a, desc)
					bad = true
					break
				}
				if out.Err != nil {
					ctx.Count("C18.reconcile-errors")
				}
			}
		}
		if bad {
			continue
		}
		st := map[string]v1.ExtendedDaemonsetSettingStatus{}
		for _, o := range s.All(simapi.KindSetting) {
			x := o.(*v1.ExtendedDaemonsetSetting)
			if x.Namespace == "ns" {
				st[x.Name] = x.Status
			}
		}
		d2 := map[string]any{"population": desc, "order": order, "status": st}
		fail := func(rule string, extra map[string]string) {
			a := map[string]string{}
			for k, v := range attrs {
				a[k] = v
			}
			for k, v := range extra {
				a[k] = v
			}
			ctx.Violation("C18", rule, a, d2)
		}
		for _, n := range nodes {
			cnt := 0
			for _, d := range sd {
				if st[d.Name].Status == v1.ExtendedDaemonsetSettingStatusValid && match(d, n.Labels) {
					cnt++
				}
			}
			if cnt > 1 {
				fail("C18.mutual-exclusion", nil)
			}
		}
		for i, d := range sd {
			x := st[d.Name]
			if (!d.HasRef || d.Broken) && x.Status != v1.ExtendedDaemonsetSettingStatusError {
				fail("C18.malformed-in-error", map[string]string{"hasRef": fmt.Sprint(d.HasRef), "broken": fmt.Sprint(d.Broken)})
			}
			if x.Status == v1.ExtendedDaemonsetSettingStatusError && x.Error == "" {
				fail("C18.error-text", nil)
			}
			if d.HasRef && !d.Broken {
				overlaps := false
				for j, o := range sd {
					if i == j {
						continue
					}
					for _, n := range nodes {
						if match(d, n.Labels) && match(o, n.Labels) {
							overlaps = true
						}
					}
				}
				if overlaps && x.Status == v1.ExtendedDaemonsetSettingStatusError {
					ctx.Count("C18.conflict-errors")
				}
				if !overlaps && x.Status != v1.ExtendedDaemonsetSettingStatusValid {
					fail("C18.lone-wellformed-valid", nil)
				}
			}
		}
		// A reconcile whose node listing is refused cannot have searched for conflicts: whatever it
		// publishes, it must not publish "valid" for that setting, and no setting may be valid while
		// carrying an error text ("only valid settings influence pods").
		if len(order) > 0 && order[0] == 0 && len(sd) > 0 {
			victim := sd[ctx.Rand.Intn(len(sd))].Name
			s.Fault = func(c *simapi.Call) simapi.FaultKind {
				if c.Verb == "list" && c.Kind == simapi.KindNode {
					return simapi.Reject
				}
				return simapi.NoFault
			}
			out := ctl.Reconcile("setting", "ns", victim, "fn")
			s.Fault = nil
			ctx.Count("C18.node-list-failures-judged")
			if o := s.Peek(simapi.KindSetting, "ns", victim); o != nil && out.Panic == "" {
				x := o.(*v1.ExtendedDaemonsetSetting)
				if x.Status.Status == v1.ExtendedDaemonsetSettingStatusValid {
					fail("C18.valid-without-conflict-search", map[string]string{"errorText": fmt.Sprint(x.Status.Error != "")})
				}
			}
			// recovery: one more failure-free pass brings the documented statuses back
			for _, i := range order {
				ctl.Reconcile("setting", "ns", sd[i].Name, "fn")
			}
			for _, n := range nodes {
				cnt := 0
				for _, d := range sd {
					if o := s.Peek(simapi.KindSetting, "ns", d.Name); o != nil && o.(*v1.ExtendedDaemonsetSetting).Status.Status == v1.ExtendedDaemonsetSettingStatusValid && match(d, n.Labels) {
						cnt++
					}
				}
				if cnt > 1 {
					fail("C18.mutual-exclusion", map[string]string{"after": "node-list-failure-and-recovery"})
				}
			}
		}
		// Which setting does a replica-set sync attach to which node? Observed through the pods it creates.
		if len(order) > 0 && order[0] == 0 || ns == 1 { // one order per population is enough for this part
			e.podsPart(ctx, s, ctl, sd, st, desc, attrs)
		}
		// The same controller instance later on: the user edits the node selector of one well-formed setting so that it
		// selects what another well-formed one selects (an overlap that did not exist when the controller first saw the
		// two), then every setting is reconciled once more, in this order. Whatever the controller kept from its earlier
		// reconciles, "once each has been reconciled against the same cluster state at most one is valid" for a node.
		{
			var wf []int
			for i, d := range sd {
				if d.HasRef && !d.Broken {
					wf = append(wf, i)
				}
			}
			var cand [][2]int
			for _, i := range wf {
				for _, j := range wf {
					if i == j {
						continue
					}
					for _, n := range nodes {
						if match(sd[j], n.Labels) {
							cand = append(cand, [2]int{i, j})
							break
						}
					}
				}
			}
			if len(cand) > 0 {
				pr := cand[ctx.Rand.Intn(len(cand))]
				sd2 := append([]c18Setting{}, sd...)
				sd2[pr[0]].Sel = *sd[pr[1]].Sel.DeepCopy()
				s.Mutate(simapi.KindSetting, "ns", sd[pr[0]].Name, func(o client.Object) {
					o.(*v1.ExtendedDaemonsetSetting).Spec.NodeSelector = *sd[pr[1]].Sel.DeepCopy()
				})
				ctx.Count("C18.selector-edits-on-a-running-controller-judged")
				panicked := false
				for _, i := range order {
					if out := ctl.Reconcile("setting", "ns", sd[i].Name, "fn"); out.Panic != "" {
						ctx.Violation("C18", "C18.no-panic", map[string]string{"panic": out.Panic, "after": "selector-edited-on-a-running-controller"}, desc)
						panicked = true
						break
					}
				}
				st2 := map[string]string{}
				for _, n := range nodes {
					cnt := 0
					for _, d := range sd2 {
						if o := s.Peek(simapi.KindSetting, "ns", d.Name); o != nil {
							x := o.(*v1.ExtendedDaemonsetSetting)
							st2[d.Name] = string(x.Status.Status) + " " + x.Status.Error
							if x.Status.Status == v1.ExtendedDaemonsetSettingStatusValid && match(d, n.Labels) {
								cnt++
							}
						}
					}
					if cnt > 1 && !panicked {
						d2["edited"] = sd[pr[0]].Name + " now selects what " + sd[pr[1]].Name + " selects"
						d2["status-after-the-edit-and-one-pass"] = st2
						fail("C18.mutual-exclusion", map[string]string{"after": "selector-edited-on-a-running-controller"})
						break
					}
				}
			}
		}
	}
}

func (e *C18) podsPart(ctx *core.Ctx, s *simapi.Store, ctl *kit.Controllers, sd []c18Setting, st map[string]v1.ExtendedDaemonsetSettingStatus, desc map[string]any, attrs map[string]string) {
	eds := kit.NewEDS("ns", "foo", "A", nil)
	eds.UID = "uid-eds"
	rs := kit.NewRS(s, eds, "foo-a", kit.Tpl("A"), kit.T0.Add(-time.Minute))
	eds.Status.ActiveReplicaSet = "foo-a"
	inc := kit.IS(100)
	eds.Spec.Strategy.RollingUpdate.SlowStartAdditiveIncrease = inc
	s.Inject(eds)
	s.Inject(rs)
	// two more settings of the same daemonset that select every node and sort first, neither of them
	// valid: one the setting controller has not reconciled yet (empty status), one left in status error
	// with an empty error text (what a reconcile interrupted by a failed listing leaves behind)
	for i, stt := range []v1.ExtendedDaemonsetSettingStatus{{}, {Status: v1.ExtendedDaemonsetSettingStatusError}} {
		x := &v1.ExtendedDaemonsetSetting{ObjectMeta: metav1.ObjectMeta{Name: fmt.Sprintf("a%d-not-valid", i), Namespace: "ns", CreationTimestamp: metav1.NewTime(kit.T0)}}
		x.Spec.Reference = &autoscalingv1.CrossVersionObjectReference{Kind: "ExtendedDaemonset", Name: "foo"}
		x.Spec.Containers = []v1.ExtendedDaemonsetSettingContainerSpec{{Name: "main", Resources: corev1.ResourceRequirements{Requests: corev1.ResourceList{"cpu": resource.MustParse(fmt.Sprintf("%d", 77+i))}}}}
		x.Status = stt
		s.Inject(x)
	}
	out := ctl.Reconcile("ers", "ns", "foo-a", "fn")
	if out.Panic != "" {
		ctx.Violation("C18", "C18.no-panic", map[string]string{"panic": out.Panic, "where": "ers"}, desc)
		return
	}
	if out.Err != nil {
		ctx.Count("C18.ers-sync-errors")
		// a sync that refuses to run because of an unusable selector of an errored setting is
		// not "a non-valid setting influencing pods" by itself, but it blocks every node:
		if len(kit.Pods(s)) == 0 {
			ctx.Count("C18.ers-sync-blocked")
		}
		return
	}
	byName := map[string]c18Setting{}
	for _, d := range sd {
		byName[d.Name] = d
	}
	nodeLabels := map[string]map[string]string{}
	for _, n := range kit.Nodes(s) {
		nodeLabels[n.Name] = n.Labels
	}
	for _, p := range kit.Pods(s) {
		ctx.Count("C18.pods-judged")
		node := kit.NodeOfPod(p)
		sn := p.Labels[v1.ExtendedDaemonSetSettingNameLabelKey]
		var validMatching []string
		for _, d := range sd {
			if st[d.Name].Status == v1.ExtendedDaemonsetSettingStatusValid && d.HasRef && !d.Broken && selMatches(&d.Sel, nodeLabels[node]) {
				validMatching = append(validMatching, d.Name)
			}
		}
		d2 := map[string]any{"population": desc, "status": st, "pod": p.Name, "node": node, "settingLabel": sn, "validMatching": validMatching}
		cpu := p.Spec.Containers[0].Resources.Requests["cpu"]
		switch {
		case sn == "" && len(validMatching) == 1:
			ctx.Violation("C18", "C18.valid-setting-applied", attrs, d2)
		case sn != "" && (st[sn].Status != v1.ExtendedDaemonsetSettingStatusValid || !selMatches2(byName, sn, nodeLabels[node])):
			ctx.Violation("C18", "C18.only-valid-settings-influence-pods", attrs, d2)
		case sn != "" && cpu.String() != byName[sn].CPU:
			ctx.Violation("C18", "C18.setting-resources", attrs, d2)
		case sn == "" && !cpu.IsZero():
			ctx.Violation("C18", "C18.only-valid-settings-influence-pods", attrs, d2)
		}
	}
}

func selMatches2(byName map[string]c18Setting, name string, lbls map[string]string) bool {
	d, ok := byName[name]
	return ok && !d.Broken && selMatches(&d.Sel, lbls)
}
