package fn

import (
	"encoding/json"
	"fmt"
	"os"
	"os/exec"
	"path/filepath"
	"regexp"
	"strconv"
	"strings"

	"vh/core"
)

// C16Fuzz engine (thorough tier only): Go's native coverage-guided fuzzing over the byte
// encoding of a strategy (c16bytes.go), same oracles as the lattice. The fuzz target lives in
// harness/fuzz; it is built against the same instrumented copy of the repository as the
// harness itself (VH_SCRATCH), in a private copy of the harness so that nothing is written
// under /verif at run time.
type C16Fuzz struct{}

const c16FuzzExecs = 400000

func (e *C16Fuzz) Name() string { return "fn.c16-fuzz" }
func (e *C16Fuzz) Rule() string {
	return fmt.Sprintf("go test -fuzz=FuzzC16 -fuzztime=%dx (coverage-guided, 16 workers, fresh corpus cache, five seed inputs): each input decodes to a strategy with raw int32 / duration / percent-string values and is judged by judgePure (Default twice, IsDefaulted, Validate, user values kept, fields filled) and by the life-cycle scenario (all reconcilers, no panic, no defaulting loop); the fuzzer's own pseudo-random source is not seedable, a failing input is stored in the replay file", c16FuzzExecs)
}
func (e *C16Fuzz) Cases(tier string, _ int64) int {
	if tier == "thorough" {
		return 1
	}
	return 0
}
func (e *C16Fuzz) Floors(tier string) map[string]int {
	if tier == "thorough" {
		return map[string]int{"C16.fuzz-execs": c16FuzzExecs * 9 / 10, "C16.fuzz-interesting-inputs": 20}
	}
	return map[string]int{}
}

var (
	reExecs = regexp.MustCompile(`execs: (\d+) .*new interesting: \d+ \(total: (\d+)\)`)
	reFail  = regexp.MustCompile(`Failing input written to (\S+)`)
)

func (e *C16Fuzz) Run(ctx *core.Ctx, _ int) {
	root, scr := os.Getenv("VERIF_ROOT"), os.Getenv("VH_SCRATCH")
	if root == "" || scr == "" {
		ctx.Note("fn.c16-fuzz: VERIF_ROOT / VH_SCRATCH not set, fuzzing not run")
		return
	}
	hc := filepath.Join(scr, "hfuzz")
	_ = os.RemoveAll(hc)
	if out, err := exec.Command("cp", "-r", filepath.Join(root, "harness"), hc).CombinedOutput(); err != nil {
		ctx.Note("fn.c16-fuzz: copy failed: " + string(out))
		return
	}
	for _, f := range []string{"go.mod", "go.sum"} {
		b, err := os.ReadFile(filepath.Join(scr, f))
		if err != nil {
			ctx.Note("fn.c16-fuzz: " + err.Error())
			return
		}
		_ = os.WriteFile(filepath.Join(hc, f), b, 0o644)
	}
	cmd := exec.Command("go", "test", "-tags", "verif", "-trimpath", "-run=^$", "-fuzz=FuzzC16", fmt.Sprintf("-fuzztime=%dx", c16FuzzExecs), "-parallel=16",
		"./fuzz", "-test.fuzzcachedir="+filepath.Join(scr, "fuzzcache"))
	cmd.Dir = hc
	cmd.Env = append(os.Environ(), "GOFLAGS=-mod=mod", "GOPROXY=off", "GOSUMDB=off", "GOTOOLCHAIN=local", "GOWORK=off")
	outB, err := cmd.CombinedOutput()
	out := string(outB)
	if ms := reExecs.FindAllStringSubmatch(out, -1); len(ms) > 0 {
		last := ms[len(ms)-1]
		n, _ := strconv.Atoi(last[1])
		k, _ := strconv.Atoi(last[2])
		ctx.Add("C16.fuzz-execs", n)
		ctx.Add("evaluations", n)
		ctx.Add("C16.fuzz-interesting-inputs", k)
		for i := 0; i < k; i++ {
			ctx.Distinct("nontrivial", fmt.Sprintf("fuzz-corpus-%d", i))
		}
	}
	if err == nil {
		return
	}
	tail := out
	if len(tail) > 6000 {
		tail = tail[len(tail)-6000:]
	}
	input := ""
	if m := reFail.FindStringSubmatch(out); m != nil {
		if b, err := os.ReadFile(filepath.Join(hc, "fuzz", m[1])); err == nil {
			input = string(b)
		}
	}
	if i := strings.Index(out, "C16VIOLATION "); i >= 0 {
		line := out[i+len("C16VIOLATION "):]
		if j := strings.IndexByte(line, '\n'); j >= 0 {
			line = line[:j]
		}
		var v core.Violation
		if json.Unmarshal([]byte(line), &v) == nil && v.Rule != "" {
			ctx.Violation("C16", v.Rule, v.Attrs, map[string]any{"found-by": "native fuzzing", "fuzz-input": input, "detail": v.Detail})
			return
		}
	}
	if !strings.Contains(out, "--- FAIL") && !strings.Contains(out, "Failing input") {
		// the tool chain itself failed (build error, killed): not a verdict about the code
		ctx.Note("fn.c16-fuzz: go test failed without a failing input: " + firstLineOf(tail))
		return
	}
	ctx.Violation("C16", "C16.no-panic", map[string]string{"kind": "fuzz-worker-crash"}, map[string]any{"found-by": "native fuzzing", "fuzz-input": input, "output": tail})
}

// C16Corpus engine (both tiers): replays the committed corpus of interesting inputs found by
// earlier fuzzing runs (harness/fuzz/testdata/fuzz/FuzzC16, Go fuzz corpus file format) through
// the same oracles, in process.
type C16Corpus struct{}

func (e *C16Corpus) Name() string { return "fn.c16-corpus" }
func (e *C16Corpus) Rule() string {
	return "every file of the committed fuzz corpus (inputs that reached new coverage in earlier fuzzing runs) decoded and judged like a fuzz input; non-trivial = distinct decoded specs"
}
func (e *C16Corpus) Cases(string, int64) int { return 1 }
func (e *C16Corpus) Floors(string) map[string]int {
	return map[string]int{"C16.corpus-inputs": 300}
}

func (e *C16Corpus) Run(ctx *core.Ctx, _ int) {
	root := os.Getenv("VERIF_ROOT")
	if root == "" {
		ctx.Note("fn.c16-corpus: VERIF_ROOT not set")
		return
	}
	files, _ := filepath.Glob(filepath.Join(root, "harness", "fuzz", "testdata", "fuzz", "FuzzC16", "*"))
	for _, f := range files {
		b, err := os.ReadFile(f)
		if err != nil {
			continue
		}
		lines := strings.Split(strings.TrimSpace(string(b)), "\n")
		if len(lines) < 2 || !strings.HasPrefix(lines[1], "[]byte(") || !strings.HasSuffix(lines[1], ")") {
			continue
		}
		data, err := strconv.Unquote(lines[1][len("[]byte(") : len(lines[1])-1])
		if err != nil {
			continue
		}
		ctx.Count("C16.corpus-inputs")
		ctx.Count("evaluations")
		spec, _ := C16FromBytes([]byte(data))
		ctx.Distinct("nontrivial", fmt.Sprint(specDesc(spec)))
		for _, v := range C16JudgeBytes([]byte(data)) {
			ctx.Violation("C16", v.Rule, v.Attrs, map[string]any{"found-by": "corpus replay", "corpus-file": filepath.Base(f), "detail": v.Detail})
		}
	}
}
