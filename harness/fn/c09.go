package fn

import (
	"fmt"
	"time"

	"github.com/go-logr/logr"
	corev1 "k8s.io/api/core/v1"
	metav1 "k8s.io/apimachinery/pkg/apis/meta/v1"
	"k8s.io/apimachinery/pkg/util/intstr"

	v1 "github.com/DataDog/extendeddaemonset/api/v1alpha1"
	"github.com/DataDog/extendeddaemonset/controllers/extendeddaemonsetreplicaset/strategy"

	"vh/core"
	"vh/kit"
	"vh/simapi"
)

// C09 engine (function part): slow-start ramp.
type C09 struct{}

func (e *C09) Name() string { return "fn.c09" }
func (e *C09) Rule() string {
	return "product: elapsed {0, interval-1ns, interval, 3.5*interval, 30 days} x interval {1s, 1min, 7min} x additive increase {1, 3, 10%, 100%} x maxParallelPodCreation {1, 5, 250} x nodes {1..200 sampled}; calculateMaxCreation (shim) compared with rampBound at the exact instant, and the number of pods ManageDeployment decides to create compared with rampBound measured from the Active condition of the status it was given; non-trivial = distinct (elapsed, interval, increase, maxParallel, nodes) tuples where the ramp, not the node count, is the binding limit"
}
func (e *C09) Cases(tier string, _ int64) int {
	if tier == "thorough" {
		return 160
	}
	return 32
}
func (e *C09) Floors(string) map[string]int {
	return map[string]int{"C09.calc-judged": 10000, "C09.manage-judged": 2000, "C09.clipped-by-ramp": 1000, "C09.clipped-by-maxparallel": 300}
}

func rampBound(t, interval time.Duration, inc intstr.IntOrString, maxParallel int, n int) (int, bool) {
	start, ok := kit.Resolve(&inc, n)
	if !ok {
		return 0, false
	}
	slots := int(t / interval)
	b := (1 + slots) * start
	if b > maxParallel {
		b = maxParallel
	}
	return b, true
}

func (e *C09) Run(ctx *core.Ctx, idx int) {
	r := ctx.Rand
	intervals := []time.Duration{time.Second, time.Minute, 7 * time.Minute, 500 * time.Millisecond, 1500 * time.Millisecond, 36 * time.Hour}
	incs := []intstr.IntOrString{intstr.FromInt(1), intstr.FromInt(3), intstr.FromString("10%"), intstr.FromString("100%")}
	maxPs := []int32{1, 5, 250}
	now := kit.T0
	for _, iv := range intervals {
		elapsedOpts := []time.Duration{0, iv - time.Nanosecond, iv, iv*3 + iv/2, 30 * 24 * time.Hour}
		for _, el := range elapsedOpts {
			for _, inc := range incs {
				for _, mp := range maxPs {
					for k := 0; k < 6; k++ {
						n := 1 + r.Intn(200)
						if k == 0 {
							n = 1 + r.Intn(12)
						}
						e.calc(ctx, now, el, iv, inc, mp, n)
						if k < 2 {
							e.manage(ctx, now, el, iv, inc, mp, 1+r.Intn(40))
						}
					}
				}
			}
		}
	}
}

func (e *C09) calc(ctx *core.Ctx, now time.Time, el, iv time.Duration, inc intstr.IntOrString, mp int32, n int) {
	ru := &v1.ExtendedDaemonSetSpecStrategyRollingUpdate{SlowStartAdditiveIncrease: &inc, MaxParallelPodCreation: &mp, SlowStartIntervalDuration: &metav1.Duration{Duration: iv}}
	var got int
	var err error
	pan := ""
	func() {
		defer func() {
			if x := recover(); x != nil {
				pan = fmt.Sprint(x)
			}
		}()
		got, err = strategy.VerifCalculateMaxCreation(ru, n, now.Add(-el), now)
	}()
	ctx.Count("evaluations")
	ctx.Count("C09.calc-judged")
	want, _ := rampBound(el, iv, inc, int(mp), n)
	desc := map[string]any{"elapsed": el.String(), "interval": iv.String(), "increase": inc.String(), "maxParallel": mp, "nodes": n, "got": got, "want": want}
	attrs := map[string]string{"increase.kind": map[bool]string{true: "percent", false: "int"}[inc.Type == intstr.String]}
	if pan != "" || err != nil {
		attrs["err"] = pan + fmt.Sprint(err)
		ctx.Violation("C09", "C09.calc-error", attrs, desc)
		return
	}
	if got != want {
		ctx.Violation("C09", "C09.ramp-value", attrs, desc)
	}
}

// manage: n nodes all lacking a pod; the replica set was given with an Active condition
// that became true `el` ago (or false / absent: then t = 0).
func (e *C09) manage(ctx *core.Ctx, now time.Time, el, iv time.Duration, inc intstr.IntOrString, mp int32, n int) {
	r := ctx.Rand
	simapi.SetNow(now)
	s := simapi.NewStore()
	c := s.NewClient("ers-controller", false)
	muN := 1 + r.Intn(3)
	mu := intstr.FromInt(muN)
	mpsf := intstr.FromInt(0)
	strat := &v1.ExtendedDaemonSetSpecStrategy{RollingUpdate: v1.ExtendedDaemonSetSpecStrategyRollingUpdate{
		MaxUnavailable: &mu, MaxPodSchedulerFailure: &mpsf, SlowStartAdditiveIncrease: &inc, MaxParallelPodCreation: &mp,
		SlowStartIntervalDuration: &metav1.Duration{Duration: iv}}}
	rs := &v1.ExtendedDaemonSetReplicaSet{ObjectMeta: metav1.ObjectMeta{Name: "rs", Namespace: "ns", CreationTimestamp: metav1.NewTime(now.Add(-90 * 24 * time.Hour))}, Spec: v1.ExtendedDaemonSetReplicaSetSpec{TemplateGeneration: hashOK}}
	condMode := r.Intn(4) // 0,1: active true since el; 2: active false; 3: absent
	t := el
	switch condMode {
	case 0, 1:
		rs.Status.Conditions = []v1.ExtendedDaemonSetReplicaSetCondition{{Type: v1.ConditionTypeActive, Status: corev1.ConditionTrue, LastTransitionTime: metav1.NewTime(now.Add(-el)), LastUpdateTime: metav1.NewTime(now)}}
	case 2:
		rs.Status.Conditions = []v1.ExtendedDaemonSetReplicaSetCondition{{Type: v1.ConditionTypeActive, Status: corev1.ConditionFalse, LastTransitionTime: metav1.NewTime(now.Add(-el)), LastUpdateTime: metav1.NewTime(now)}}
		t = 0
	case 3:
		t = 0
	}
	params := &strategy.Parameters{EDSName: "eds", Strategy: strat, Replicaset: rs, ReplicaSetStatus: "active", NewStatus: rs.Status.DeepCopy(), Logger: logr.Discard(),
		NodeByName: map[string]*strategy.NodeItem{}, PodByNodeName: map[*strategy.NodeItem]*corev1.Pod{}}
	withPods := r.Intn(n+1) / 2
	oldUnavailable := 0
	if r.Intn(3) == 0 {
		oldUnavailable = r.Intn(withPods + 1)
	}
	for i := 0; i < n; i++ {
		name := fmt.Sprintf("n%d", i)
		ni := strategy.NewNodeItem(&corev1.Node{ObjectMeta: metav1.ObjectMeta{Name: name}}, nil)
		params.NodeByName[name] = ni
		if i < withPods {
			// some of the existing pods are outdated and already unavailable: however many there are,
			// at most maxUnavailable pods may be deleted for updating in one sync
			h, ready := hashOK, true
			if i < oldUnavailable {
				h, ready = "OLD", false
			}
			pod := &corev1.Pod{ObjectMeta: metav1.ObjectMeta{Name: "pod-" + name, Namespace: "ns", CreationTimestamp: metav1.NewTime(now.Add(-time.Hour)),
				Annotations: map[string]string{v1.MD5ExtendedDaemonSetAnnotationKey: h}}, Spec: corev1.PodSpec{NodeName: name}}
			pod.Status.Conditions = []corev1.PodCondition{kit.ReadyCond(ready, now.Add(-time.Minute))}
			params.PodByNodeName[ni] = pod
		} else {
			params.PodByNodeName[ni] = nil
		}
	}
	eds := &v1.ExtendedDaemonSet{ObjectMeta: metav1.ObjectMeta{Name: "eds", Namespace: "ns", Annotations: map[string]string{}}}
	frozen, paused := r.Intn(8) == 0, r.Intn(8) == 0
	if frozen {
		eds.Annotations[v1.ExtendedDaemonSetRolloutFrozenAnnotationKey] = "true"
	}
	if paused {
		eds.Annotations[v1.ExtendedDaemonSetRollingUpdatePausedAnnotationKey] = "true"
	}
	var res *strategy.Result
	var err error
	pan := ""
	func() {
		defer func() {
			if x := recover(); x != nil {
				pan = fmt.Sprint(x)
			}
		}()
		res, err = strategy.ManageDeployment(c, eds, params, metav1.NewTime(now))
	}()
	ctx.Count("evaluations")
	bound, _ := rampBound(t, iv, inc, int(mp), n)
	lacking := n - withPods
	desc := map[string]any{"sinceActive": t.String(), "activeCondition": []string{"true", "true", "false", "absent"}[condMode], "interval": iv.String(), "increase": inc.String(), "maxParallel": mp, "nodes": n, "lackingPod": lacking, "bound": bound, "frozen": frozen, "paused": paused}
	attrs := map[string]string{"activeCondition": []string{"true", "true", "false", "absent"}[condMode]}
	if pan != "" || err != nil || res == nil {
		attrs["err"] = pan + fmt.Sprint(err)
		ctx.Violation("C09", "C09.manage-error", attrs, desc)
		return
	}
	ctx.Count("C09.manage-judged")
	got := len(res.PodsToCreate)
	desc["created"] = got
	if bound < lacking {
		if bound == int(mp) {
			ctx.Count("C09.clipped-by-maxparallel")
		} else {
			ctx.Count("C09.clipped-by-ramp")
		}
		if ctx.Distinct("nontrivial", fmt.Sprintf("%v|%v|%s|%d|%d|%d|%d", t, iv, inc.String(), mp, n, lacking, condMode)) && got > 0 {
			ctx.Sample(desc)
		}
	}
	if got > bound {
		ctx.Violation("C09", "C09.create-bound", attrs, desc)
	}
	if got > lacking {
		ctx.Violation("C09", "C09.create-more-than-missing", attrs, desc)
	}
	if frozen && got > 0 {
		ctx.Violation("C09", "C09.create-while-frozen", attrs, desc)
	}
	seen := map[string]bool{}
	for _, ni := range res.PodsToCreate {
		if seen[ni.Node.Name] || params.PodByNodeName[ni] != nil {
			ctx.Violation("C09", "C09.create-target", attrs, desc)
		}
		seen[ni.Node.Name] = true
	}
	desc["oldUnavailablePods"], desc["maxUnavailable"], desc["updateDeletes"] = oldUnavailable, muN, len(res.PodsToDelete)
	if oldUnavailable > muN {
		ctx.Count("C09.more-old-unavailable-than-budget")
	}
	if !paused && !frozen && len(res.PodsToDelete) > muN {
		ctx.Violation("C09", "C09.delete-cap", attrs, desc)
	}
}
