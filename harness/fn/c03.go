// Package fn holds the function-level engines (DESIGN.md 2.7): generated inputs are fed to
// the real exported function or verif shim at an exact virtual instant and the outputs are
// compared with an independent reference oracle.
package fn

import (
	"fmt"
	"sort"
	"strings"
	"time"

	"github.com/go-logr/logr"
	corev1 "k8s.io/api/core/v1"
	metav1 "k8s.io/apimachinery/pkg/apis/meta/v1"
	"k8s.io/apimachinery/pkg/util/intstr"

	v1 "github.com/DataDog/extendeddaemonset/api/v1alpha1"
	"github.com/DataDog/extendeddaemonset/controllers/extendeddaemonsetreplicaset/strategy"

	"vh/core"
	"vh/kit"
	"vh/simapi"
)

// node classes of the C03 quantifier
const (
	clsNone = iota
	clsUpA
	clsUpU
	clsOldA
	clsOldU
	clsOldT
	clsStuck
	nCls
)

var clsNames = [...]string{"none", "upA", "upU", "oldA", "oldU", "oldT", "stuck"}

// C03 engine: ManageDeployment budget.
type C03 struct {
	multisets [][]int // counts per class
}

var c03MU = []intstr.IntOrString{intstr.FromInt(1), intstr.FromInt(2), intstr.FromInt(3), intstr.FromString("10%"), intstr.FromString("50%"), intstr.FromString("100%"), intstr.FromInt(-1) /* = N */}
var c03MPSF = []intstr.IntOrString{intstr.FromInt(0), intstr.FromInt(1), intstr.FromString("50%")}

func (e *C03) Name() string { return "fn.c03" }
func (e *C03) Rule() string {
	return "all multisets of the 7 node classes for N<=4 (quick) / N<=5 (thorough) plus seeded multisets for N in 5..12, x maxUnavailable {1,2,3,N,10%,50%,100%} x maxPodSchedulerFailure {0,1,50%}; each case runs the real ManageDeployment 12/24 times (Go map order); non-trivial = distinct (multiset,MU,MPSF) with an available outdated pod present"
}

func multisets(n, k int) [][]int {
	var out [][]int
	cur := make([]int, k)
	var rec func(pos, left int)
	rec = func(pos, left int) {
		if pos == k-1 {
			cur[pos] = left
			out = append(out, append([]int(nil), cur...))
			return
		}
		for c := 0; c <= left; c++ {
			cur[pos] = c
			rec(pos+1, left-c)
		}
	}
	rec(0, n)
	return out
}

func (e *C03) init(tier string) {
	if e.multisets != nil {
		return
	}
	maxN := 4
	if tier == "thorough" {
		maxN = 5
	}
	for n := 1; n <= maxN; n++ {
		e.multisets = append(e.multisets, multisets(n, nCls)...)
	}
}

func (e *C03) nSampled(tier string) int {
	if tier == "thorough" {
		return 6000
	}
	return 1500
}

func (e *C03) Cases(tier string, _ int64) int {
	e.init(tier)
	return len(e.multisets)*len(c03MU)*len(c03MPSF) + e.nSampled(tier)
}

func (e *C03) Floors(tier string) map[string]int {
	return map[string]int{"C03.mixed-cases": 1000, "C03.multi-deleteset-cases": 300, "C03.calls": 20000, "C03.cases-with-untargeted-nodes": 1500}
}

func (e *C03) Run(ctx *core.Ctx, idx int) {
	e.init(ctx.Tier)
	nEx := len(e.multisets) * len(c03MU) * len(c03MPSF)
	var cnt []int
	var mu, mpsf intstr.IntOrString
	if idx < nEx {
		cnt = e.multisets[idx/(len(c03MU)*len(c03MPSF))]
		mu = c03MU[(idx/len(c03MPSF))%len(c03MU)]
		mpsf = c03MPSF[idx%len(c03MPSF)]
		ctx.Count("C03.exhaustive-cases")
	} else if idx%4 == 0 {
		// at scale: dozens to hundreds of nodes and arbitrary percentages (rounding of p% of n, budgets
		// that only bite with many nodes)
		n := []int{25, 50, 75, 100, 150, 200, 300}[ctx.Rand.Intn(7)]
		if ctx.Rand.Intn(2) == 0 {
			n = 20 + ctx.Rand.Intn(280)
		}
		cnt = make([]int, nCls)
		for i := 0; i < n; i++ {
			switch k := ctx.Rand.Intn(20); {
			case k < 16:
				cnt[clsOldA]++
			case k < 18:
				cnt[clsOldU]++
			default:
				cnt[clsUpA]++
			}
		}
		mu = intstr.FromString(fmt.Sprintf("%d%%", 1+ctx.Rand.Intn(100)))
		mpsf = []intstr.IntOrString{intstr.FromInt(0), intstr.FromString(fmt.Sprintf("%d%%", 1+ctx.Rand.Intn(30)))}[ctx.Rand.Intn(2)]
		ctx.Count("C03.cases-at-scale")
	} else {
		minN := 5
		if ctx.Tier == "thorough" {
			minN = 6
		}
		n := minN + ctx.Rand.Intn(13-minN)
		cnt = make([]int, nCls)
		// bias towards the interesting classes
		for i := 0; i < n; i++ {
			k := ctx.Rand.Intn(nCls + 3)
			if k >= nCls {
				k = []int{clsOldA, clsOldU, clsUpA}[k-nCls]
			}
			cnt[k]++
		}
		mu = c03MU[ctx.Rand.Intn(len(c03MU))]
		mpsf = c03MPSF[ctx.Rand.Intn(len(c03MPSF))]
	}
	n := 0
	for _, c := range cnt {
		n += c
	}
	if mu.Type == intstr.Int && mu.IntVal == -1 {
		mu = intstr.FromInt(n)
	}
	reps := 12
	if ctx.Tier == "thorough" {
		reps = 24
	}
	if n >= 20 {
		reps = 2
	}
	withCleanup := ctx.Rand.Intn(4) == 0
	// nodes the selector matches but the daemonset does not target (unfit, or reserved for a canary):
	// present in NodeByName only; percentages are resolved against the targeted nodes
	untargeted := []int{0, 0, n, 2*n + 1}[ctx.Rand.Intn(4)]
	if untargeted > 0 {
		ctx.Count("C03.cases-with-untargeted-nodes")
	}
	key := fmt.Sprintf("%v|%s|%s", cnt, mu.String(), mpsf.String())
	if cnt[clsOldA] > 0 {
		ctx.Distinct("nontrivial", key)
	}
	ctx.Distinct("cases", key)
	if cnt[clsOldA] > 0 && (cnt[clsOldU] > 0) {
		ctx.Count("C03.mixed-cases")
	}
	deleteSets := map[string]bool{}
	for rep := 0; rep < reps; rep++ {
		ds, ok := e.one(ctx, cnt, n, untargeted, mu, mpsf, withCleanup, rep == 0)
		if !ok {
			return
		}
		deleteSets[ds] = true
	}
	if len(deleteSets) >= 2 {
		ctx.Count("C03.multi-deleteset-cases")
	}
	if len(deleteSets) >= 3 {
		ctx.Count("C03.3plus-deleteset-cases")
	}
}

const hashOK = "HASH-CURRENT"

// one runs ManageDeployment once; returns the delete set signature.
func (e *C03) one(ctx *core.Ctx, cnt []int, n, untargeted int, mu, mpsf intstr.IntOrString, withCleanup, sample bool) (string, bool) {
	t0 := kit.T0
	simapi.SetNow(t0)
	s := simapi.NewStore()
	c := s.NewClient("ers-controller", false)
	inc := intstr.FromInt(100)
	mp := int32(250)
	strat := &v1.ExtendedDaemonSetSpecStrategy{RollingUpdate: v1.ExtendedDaemonSetSpecStrategyRollingUpdate{
		MaxUnavailable: &mu, MaxPodSchedulerFailure: &mpsf, SlowStartAdditiveIncrease: &inc, MaxParallelPodCreation: &mp,
		SlowStartIntervalDuration: &metav1.Duration{Duration: time.Minute}}}
	rs := &v1.ExtendedDaemonSetReplicaSet{ObjectMeta: metav1.ObjectMeta{Name: "rs", Namespace: "ns"}, Spec: v1.ExtendedDaemonSetReplicaSetSpec{TemplateGeneration: hashOK}}
	params := &strategy.Parameters{EDSName: "eds", Strategy: strat, Replicaset: rs, ReplicaSetStatus: "active", NewStatus: rs.Status.DeepCopy(), Logger: logr.Discard(),
		NodeByName: map[string]*strategy.NodeItem{}, PodByNodeName: map[*strategy.NodeItem]*corev1.Pod{}}
	podCls := map[string]int{}
	i := 0
	for k := 0; k < nCls; k++ {
		for j := 0; j < cnt[k]; j++ {
			name := fmt.Sprintf("n%d", i)
			i++
			ni := strategy.NewNodeItem(&corev1.Node{ObjectMeta: metav1.ObjectMeta{Name: name}}, nil)
			params.NodeByName[name] = ni
			if k == clsNone {
				params.PodByNodeName[ni] = nil
				continue
			}
			h := hashOK
			if k == clsOldA || k == clsOldU || k == clsOldT || (k == clsStuck && j%2 == 0) {
				h = "OLD"
			}
			pod := &corev1.Pod{ObjectMeta: metav1.ObjectMeta{Name: "pod-" + name, Namespace: "ns", CreationTimestamp: metav1.NewTime(t0.Add(-time.Hour)),
				Annotations: map[string]string{v1.MD5ExtendedDaemonSetAnnotationKey: h}}, Spec: corev1.PodSpec{NodeName: name}}
			if k == clsOldA && j%2 == 1 {
				// adopted from the old DaemonSet of a declared migration (annotation on the ExtendedDaemonSet below): owned by
				// that DaemonSet, no template hash - an outdated available pod like any other ("this also covers pods
				// adopted from the DaemonSet named by the old-daemonset migration annotation")
				tr := true
				delete(pod.Annotations, v1.MD5ExtendedDaemonSetAnnotationKey)
				pod.OwnerReferences = []metav1.OwnerReference{{APIVersion: "apps/v1", Kind: "DaemonSet", Name: "old-ds", UID: "uid-old-ds", Controller: &tr}}
				pod.Labels = map[string]string{"app": "old-agent"}
			}
			pod.Status.Phase = corev1.PodRunning
			pod.Status.Conditions = []corev1.PodCondition{kit.ReadyCond(k == clsUpA || k == clsOldA, t0.Add(-time.Minute))}
			if (k == clsUpU || k == clsOldU) && j%3 == 1 {
				// not available either: Ready=Unknown (the node stopped reporting)
				pod.Status.Conditions[0].Status = corev1.ConditionUnknown
			}
			if k == clsUpU && j%3 == 2 {
				// not available: rejected by the kubelet's admission (a Failed pod kept as the node's pod while the
				// clean-up of failed pods backs off): neither stuck unscheduled nor stuck terminating
				pod.Status.Phase = corev1.PodFailed
				pod.Status.Reason = []string{"OutOfcpu", "NodeAffinity", "Evicted"}[(j/3)%3]
			}
			if k == clsOldT {
				d := metav1.NewTime(t0.Add(-5 * time.Second))
				g := int64(30)
				pod.DeletionTimestamp, pod.DeletionGracePeriodSeconds = &d, &g
			}
			if k == clsStuck {
				if (j/2)%2 == 0 { // unscheduled for more than 10 minutes
					pod.Spec.NodeName = ""
				} else { // terminating past its grace period
					d := metav1.NewTime(t0.Add(-5 * time.Minute))
					g := int64(30)
					pod.DeletionTimestamp, pod.DeletionGracePeriodSeconds = &d, &g
				}
			}
			s.Inject(pod)
			podCls[pod.Name] = k
			params.PodByNodeName[ni] = pod
		}
	}
	for j := 0; j < untargeted; j++ {
		name := fmt.Sprintf("untargeted%d", j)
		params.NodeByName[name] = strategy.NewNodeItem(&corev1.Node{ObjectMeta: metav1.ObjectMeta{Name: name}}, nil)
	}
	nCleanup := 0
	if withCleanup {
		for j := 0; j < 2; j++ {
			p := &corev1.Pod{ObjectMeta: metav1.ObjectMeta{Name: fmt.Sprintf("cleanup-%d", j), Namespace: "ns"}, Spec: corev1.PodSpec{NodeName: "gone"}}
			p.Status.Phase = corev1.PodRunning
			p.Status.Conditions = []corev1.PodCondition{kit.ReadyCond(true, t0.Add(-time.Minute))}
			s.Inject(p)
			params.PodToCleanUp = append(params.PodToCleanUp, p)
			nCleanup++
		}
	}
	eds := &v1.ExtendedDaemonSet{ObjectMeta: metav1.ObjectMeta{Name: "eds", Namespace: "ns", Annotations: map[string]string{v1.ExtendedDaemonSetOldDaemonsetAnnotationKey: "old-ds"}}}
	var res *strategy.Result
	var err error
	pan := ""
	func() {
		defer func() {
			if r := recover(); r != nil {
				pan = fmt.Sprint(r)
			}
		}()
		res, err = strategy.ManageDeployment(c, eds, params, metav1.NewTime(t0))
	}()
	ctx.Count("C03.calls")
	ctx.Count("evaluations")
	if pan != "" {
		ctx.Violation("C03", "C03.no-panic", map[string]string{"panic": pan}, fmt.Sprintf("cnt=%v mu=%s mpsf=%s", cnt, mu.String(), mpsf.String()))
		return "", false
	}
	if err != nil || res == nil {
		ctx.Violation("C03", "C03.unexpected-error", map[string]string{"err": fmt.Sprint(err)}, nil)
		return "", false
	}
	MU, _ := kit.Resolve(&mu, n)
	MPSF, _ := kit.Resolve(&mpsf, n)
	tol := cnt[clsStuck]
	if tol > MPSF {
		tol = MPSF
	}
	U := cnt[clsNone] + cnt[clsUpU] + cnt[clsOldU] + cnt[clsOldT] + cnt[clsStuck] - tol
	allowed := MU - U
	if allowed < 0 {
		allowed = 0
	}
	dAvail, dUn := 0, 0
	var names []string
	badClass := ""
	for _, ni := range res.PodsToDelete {
		p := params.PodByNodeName[ni]
		names = append(names, p.Name)
		switch podCls[p.Name] {
		case clsOldA:
			dAvail++
		case clsOldU:
			dUn++
		default:
			badClass = clsNames[podCls[p.Name]]
		}
	}
	sort.Strings(names)
	if len(res.PodsToDelete) > 0 {
		ctx.Count("C03.calls-deleting")
	}
	desc := map[string]any{"classes": clsDesc(cnt), "maxUnavailable": mu.String(), "maxPodSchedulerFailure": mpsf.String(), "N": n, "untargetedNodes": untargeted, "MU": MU, "U": U,
		"allowedAvailableDeletes": allowed, "deletedAvailable": dAvail, "deletedUnavailable": dUn, "deleted": names}
	if sample && cnt[clsOldA] > 0 && cnt[clsOldU] > 0 {
		ctx.Sample(desc)
	}
	attrs := func() map[string]string {
		return map[string]string{"mixed": fmt.Sprint(cnt[clsOldA] > 0 && cnt[clsOldU] > 0), "stuck": fmt.Sprint(cnt[clsStuck] > 0)}
	}
	switch {
	case badClass != "":
		a := attrs()
		a["class"] = badClass
		ctx.Violation("C03", "C03.class", a, desc)
	case dAvail > allowed:
		ctx.Violation("C03", "C03.budget", attrs(), desc)
	case len(res.PodsToDelete) > MU:
		ctx.Violation("C03", "C03.cap", attrs(), desc)
	case dAvail > 0 && dUn < cnt[clsOldU]:
		ctx.Violation("C03", "C03.unavailable-first", attrs(), desc)
	}
	// clean-up is outside the budget: every clean-up pod must have been deleted
	if nCleanup > 0 {
		left := 0
		for _, p := range kit.Pods(s) {
			if strings.HasPrefix(p.Name, "cleanup-") && p.DeletionTimestamp == nil {
				left++
			}
		}
		ctx.Count("C03.cleanup-observed")
		if left > 0 {
			ctx.Violation("C03", "C03.cleanup-outside-budget", attrs(), desc)
		}
	}
	return strings.Join(names, ","), true
}

func clsDesc(cnt []int) string {
	var parts []string
	for k, c := range cnt {
		if c > 0 {
			parts = append(parts, fmt.Sprintf("%s=%d", clsNames[k], c))
		}
	}
	return strings.Join(parts, " ")
}
