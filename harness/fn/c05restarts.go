package fn

import (
	"fmt"
	"time"

	corev1 "k8s.io/api/core/v1"
	metav1 "k8s.io/apimachinery/pkg/apis/meta/v1"

	v1 "github.com/DataDog/extendeddaemonset/api/v1alpha1"

	"sigs.k8s.io/controller-runtime/pkg/client"

	"vh/core"
	"vh/kit"
	"vh/simapi"
)

// C05Restarts: the "no canary pod restarted within noRestartsDuration" conjunct of the promotion rule, from the
// pods up: canary pods with one to three containers (regular and init) that restarted at different moments
// are given to one real replica-set sync (which records the restart) and then to one real ExtendedDaemonSet
// reconcile at the end of the canary duration. The latest restart is the latest termination of ANY container
// of any canary pod.
type C05Restarts struct{}

func (e *C05Restarts) Name() string { return "fn.c05-restarts" }
func (e *C05Restarts) Rule() string {
	return "auto validation, duration 10m elapsed by 1m, noRestartsDuration 5m; one or two canary pods with 1-3 containers (incl. an init container) whose restart counts {0,1,2} and last terminations {30s .. 9m ago} are drawn independently (counts stay at or below autoPause.maxRestarts); one real replica-set sync in the canary role, then one real ExtendedDaemonSet reconcile: the active replica set may switch only if the latest termination of any container of any canary pod is more than 5m old - also one sync period after the user deleted the pod that restarted last; non-trivial = distinct (container layout, restart counts, which container restarted last)"
}
func (e *C05Restarts) Cases(tier string, _ int64) int {
	if tier == "thorough" {
		return 200
	}
	return 32
}
func (e *C05Restarts) Floors(string) map[string]int {
	return map[string]int{"C05.restart-points": 600, "C05.restart-points-with-validation-mode-edited-manual-to-auto": 200, "C05.restart-points-with-recent-restart-of-a-less-restarted-container": 40}
}

func (e *C05Restarts) Run(ctx *core.Ctx, idx int) {
	for i := 0; i < 30; i++ {
		e.one(ctx)
	}
}

func (e *C05Restarts) one(ctx *core.Ctx) {
	r := ctx.Rand
	now := kit.T0
	simapi.SetNow(now)
	s := simapi.NewStore()
	canary := &v1.ExtendedDaemonSetSpecStrategyCanary{Replicas: kit.IS(2), ValidationMode: v1.ExtendedDaemonSetSpecStrategyCanaryValidationModeAuto,
		Duration: &metav1.Duration{Duration: 10 * time.Minute}, NoRestartsDuration: &metav1.Duration{Duration: 5 * time.Minute}}
	// half of the points: the canary was started in manual validation mode (which admits neither a duration nor a
	// noRestartsDuration), the replica set syncs - and has to record the restarts - in that mode, and the user then
	// edits the canary block in place to auto validation with the durations above, right before the ExtendedDaemonSet
	// reconcile: the restarts happened all the same and noRestartsDuration counts from them
	manualFirst := r.Intn(2) == 0
	first := canary
	if manualFirst {
		first = &v1.ExtendedDaemonSetSpecStrategyCanary{Replicas: kit.IS(2), ValidationMode: v1.ExtendedDaemonSetSpecStrategyCanaryValidationModeManual}
	}
	eds := kit.NewEDS("ns", "foo", "B", first)
	eds.UID = "uid-eds"
	rsA := kit.NewRS(s, eds, "foo-a", kit.Tpl("A"), now.Add(-24*time.Hour))
	rsA.Status = v1.ExtendedDaemonSetReplicaSetStatus{Status: "active", Desired: 2, Current: 2, Ready: 2, Available: 2}
	rsB := kit.NewRS(s, eds, "foo-b", kit.Tpl("B"), now.Add(-11*time.Minute))
	rsB.Status = v1.ExtendedDaemonSetReplicaSetStatus{Status: "canary", Desired: 2, Current: 2, Ready: 2, Available: 2}
	// the canary has been running since its creation
	rsB.Status.Conditions = []v1.ExtendedDaemonSetReplicaSetCondition{{Type: v1.ConditionTypeCanary, Status: corev1.ConditionTrue, LastTransitionTime: metav1.NewTime(now.Add(-11 * time.Minute)), LastUpdateTime: metav1.NewTime(now.Add(-11 * time.Minute))}}
	eds.Status.ActiveReplicaSet = "foo-a"
	eds.Status.Desired = 4
	eds.Status.State = v1.ExtendedDaemonSetStatusStateCanary
	eds.Status.Canary = &v1.ExtendedDaemonSetStatusCanary{ReplicaSet: "foo-b", Nodes: []string{"n0", "n1"}}
	s.Inject(eds)
	s.Inject(rsA)
	stB := s.Inject(rsB)
	for i := 0; i < 4; i++ {
		s.Inject(kit.Node(fmt.Sprintf("n%d", i), nil))
	}
	tr := true
	var latest time.Time
	latestPod := ""
	podLatests := map[string]time.Time{}
	layout := ""
	lessRestartedLast := false
	for i := 0; i < 2; i++ {
		node := fmt.Sprintf("n%d", i)
		p := &corev1.Pod{ObjectMeta: metav1.ObjectMeta{Namespace: "ns", Name: "foo-b-" + node, Labels: map[string]string{v1.ExtendedDaemonSetNameLabelKey: "foo", v1.ExtendedDaemonSetReplicaSetNameLabelKey: "foo-b", v1.ExtendedDaemonSetReplicaSetCanaryLabelKey: v1.ExtendedDaemonSetReplicaSetCanaryLabelValue, kit.MarkerLabel: "B"},
			Annotations:     map[string]string{v1.MD5ExtendedDaemonSetAnnotationKey: rsB.Spec.TemplateGeneration},
			OwnerReferences: []metav1.OwnerReference{{APIVersion: "datadoghq.com/v1alpha1", Kind: "ExtendedDaemonSetReplicaSet", Name: "foo-b", UID: stB.GetUID(), Controller: &tr}}},
			Spec: corev1.PodSpec{NodeName: node, Containers: []corev1.Container{{Name: "main", Image: "img:B"}}}}
		p.Status.Phase = corev1.PodRunning
		st := metav1.NewTime(now.Add(-11 * time.Minute))
		p.Status.StartTime = &st
		p.Status.Conditions = []corev1.PodCondition{kit.ReadyCond(true, now.Add(-10*time.Minute))}
		nc := 1 + r.Intn(3)
		if i == 1 && r.Intn(2) == 0 {
			nc = 1
		}
		maxCount, maxCountAt := int32(-1), time.Time{}
		var podLatest time.Time
		for c := 0; c < nc; c++ {
			cs := corev1.ContainerStatus{Name: fmt.Sprintf("c%d", c), Ready: true, State: corev1.ContainerState{Running: &corev1.ContainerStateRunning{StartedAt: st}}}
			cs.RestartCount = int32(r.Intn(3))
			var at time.Time
			if cs.RestartCount > 0 {
				at = now.Add(-[]time.Duration{30 * time.Second, time.Minute, 4 * time.Minute, 6 * time.Minute, 9 * time.Minute}[r.Intn(5)])
				cs.LastTerminationState = corev1.ContainerState{Terminated: &corev1.ContainerStateTerminated{Reason: "Error", ExitCode: 1, FinishedAt: metav1.NewTime(at)}}
				if at.After(podLatest) {
					podLatest = at
				}
				if cs.RestartCount > maxCount {
					maxCount, maxCountAt = cs.RestartCount, at
				}
			}
			layout += fmt.Sprintf("%d@%s ", cs.RestartCount, now.Sub(at).Round(time.Second))
			if c == 2 && r.Intn(2) == 0 {
				p.Status.InitContainerStatuses = append(p.Status.InitContainerStatuses, cs)
			} else {
				p.Status.ContainerStatuses = append(p.Status.ContainerStatuses, cs)
			}
		}
		layout += "| "
		if !podLatest.IsZero() && podLatest.After(maxCountAt) {
			lessRestartedLast = true
		}
		if podLatest.After(latest) {
			latest = podLatest
			latestPod = p.Name
		}
		podLatests[p.Name] = podLatest
		s.Inject(p)
	}
	// the active replica set's pods on the other nodes
	for i := 2; i < 4; i++ {
		node := fmt.Sprintf("n%d", i)
		p := &corev1.Pod{ObjectMeta: metav1.ObjectMeta{Namespace: "ns", Name: "foo-a-" + node, Labels: map[string]string{v1.ExtendedDaemonSetNameLabelKey: "foo", v1.ExtendedDaemonSetReplicaSetNameLabelKey: "foo-a", kit.MarkerLabel: "A"},
			Annotations: map[string]string{v1.MD5ExtendedDaemonSetAnnotationKey: rsA.Spec.TemplateGeneration}},
			Spec: corev1.PodSpec{NodeName: node, Containers: []corev1.Container{{Name: "main", Image: "img:A"}}}}
		p.Status.Phase = corev1.PodRunning
		p.Status.Conditions = []corev1.PodCondition{kit.ReadyCond(true, now.Add(-time.Hour))}
		s.Inject(p)
	}
	ctl := kit.NewControllers(s, kit.CtlOpts{})
	ctx.Count("C05.restart-points")
	ctx.Count("evaluations")
	if lessRestartedLast {
		ctx.Count("C05.restart-points-with-recent-restart-of-a-less-restarted-container")
	}
	ctx.Distinct("nontrivial", layout)
	desc := map[string]any{"containers (restarts@age of last termination)": layout, "latestTermination": now.Sub(latest).String()}
	attrs := map[string]string{"lessRestartedContainerRestartedLast": fmt.Sprint(lessRestartedLast), "validationModeEditedDuringCanary": fmt.Sprint(manualFirst)}
	o1 := ctl.Reconcile("ers", "ns", "foo-b", "fn")
	if o1.Panic != "" {
		ctx.Violation("C05", "C05.no-panic", merge2(attrs, "panic", o1.Panic), desc)
		return
	}
	if manualFirst {
		ctx.Count("C05.restart-points-with-validation-mode-edited-manual-to-auto")
		auto := kit.NewEDS("ns", "foo", "B", canary).Spec.Strategy.Canary
		s.Mutate(simapi.KindEDS, "ns", "foo", func(o client.Object) {
			o.(*v1.ExtendedDaemonSet).Spec.Strategy.Canary = auto.DeepCopy()
		})
	}
	o2 := ctl.Reconcile("eds", "ns", "foo", "fn")
	if o2.Panic != "" {
		ctx.Violation("C05", "C05.no-panic", merge2(attrs, "panic", o2.Panic), desc)
		return
	}
	after := kit.GetEDS(s, "ns", "foo")
	switched := after.Status.ActiveReplicaSet == "foo-b"
	recent := !latest.IsZero() && now.Sub(latest) < 5*time.Minute
	if switched {
		ctx.Count("C05.restart-points-promoted")
	}
	if switched && recent {
		ctx.Violation("C05", "C05.promotion", merge2(attrs, "cause", "a-canary-pod-restarted-within-noRestartsDuration"), desc)
	}
	// second phase: the user deletes the canary pod that restarted last (the other one restarted longer ago or not at
	// all). The restart happened all the same: one replica-set sync period later the promotion rule still has to
	// count noRestartsDuration from it.
	if switched || !recent || latestPod == "" {
		return
	}
	other := false
	for n, t := range podLatests {
		if n != latestPod && t.Before(latest) {
			other = true
		}
	}
	if !other {
		return
	}
	s.Remove(simapi.KindPod, "ns", latestPod)
	simapi.Advance(11 * time.Second)
	now2 := now.Add(11 * time.Second)
	ctx.Count("C05.restart-points-after-deleting-the-pod-that-restarted-last")
	if o := ctl.Reconcile("ers", "ns", "foo-b", "fn"); o.Panic != "" {
		ctx.Violation("C05", "C05.no-panic", merge2(attrs, "panic", o.Panic), desc)
		return
	}
	if o := ctl.Reconcile("eds", "ns", "foo", "fn"); o.Panic != "" {
		ctx.Violation("C05", "C05.no-panic", merge2(attrs, "panic", o.Panic), desc)
		return
	}
	if after2 := kit.GetEDS(s, "ns", "foo"); after2.Status.ActiveReplicaSet == "foo-b" && now2.Sub(latest) < 5*time.Minute {
		desc["deleted"] = latestPod
		ctx.Violation("C05", "C05.promotion", merge2(attrs, "cause", "the-canary-pod-that-restarted-last-was-deleted"), desc)
	}
}

func merge2(a map[string]string, kv ...string) map[string]string {
	out := map[string]string{}
	for k, v := range a {
		out[k] = v
	}
	for i := 0; i+1 < len(kv); i += 2 {
		out[kv[i]] = kv[i+1]
	}
	return out
}
