package fn

import (
	"fmt"
	"reflect"
	"time"

	corev1 "k8s.io/api/core/v1"
	metav1 "k8s.io/apimachinery/pkg/apis/meta/v1"
	"k8s.io/apimachinery/pkg/util/intstr"

	v1 "github.com/DataDog/extendeddaemonset/api/v1alpha1"

	"vh/core"
	"vh/kit"
	"vh/simapi"
)

// C16 engine: defaulting fixed point, validation rules, no crash through reconciliation.
type C16 struct{}

func (e *C16) Name() string { return "fn.c16" }
func (e *C16) Rule() string {
	return "per-field boundary lattice of the strategy (intOrString: absent, 0, -1, 1, huge, 50%, malformed, 0%; durations: absent, 0, negative, positive; int32: absent, 0, -1, 1, huge; booleans; validation mode unset/auto/manual; canary present/absent; both controller default modes): pure part = full product of the canary key fields and of the rolling-update fields through Default/IsDefaulted/Validate; reconcile part = seeded specs from the same lattice stored in a 3-node cluster and driven through deploy -> template change -> canary -> promotion rounds of all real reconcilers; non-trivial = distinct specs"
}

var c16Modes = []v1.ExtendedDaemonSetSpecStrategyCanaryValidationMode{"", "auto", "manual"}
var c16Dflt = []v1.ExtendedDaemonSetSpecStrategyCanaryValidationMode{"auto", "manual"}

func c16IOS() []*intstr.IntOrString {
	return []*intstr.IntOrString{nil, kit.IS(0), kit.IS(-1), kit.IS(1), kit.IS(1 << 30), kit.PS("50%"), kit.PS("abc"), kit.PS("0%")}
}
func c16Dur() []*metav1.Duration {
	mk := func(d time.Duration) *metav1.Duration { return &metav1.Duration{Duration: d} }
	return []*metav1.Duration{nil, mk(0), mk(-time.Second), mk(time.Minute)}
}
func c16I32() []*int32 {
	mk := func(i int32) *int32 { return &i }
	return []*int32{nil, mk(0), mk(-1), mk(1), mk(1 << 30)}
}
func c16Bool() []*bool {
	t, f := true, false
	return []*bool{nil, &t, &f}
}

const c16PureShards = 24

func (e *C16) nScenario(tier string) int {
	if tier == "thorough" {
		return 6000
	}
	return 600
}
func (e *C16) Cases(tier string, _ int64) int { return c16PureShards + e.nScenario(tier) }
func (e *C16) Floors(string) map[string]int {
	return map[string]int{"C16.pure-points": 100000, "C16.scenarios": 500, "C16.scenario-reconciles": 10000, "C16.validate-rejections": 10000}
}

func (e *C16) Run(ctx *core.Ctx, idx int) {
	if idx < c16PureShards {
		e.pure(ctx, idx)
		return
	}
	e.scenario(ctx)
}

func (e *C16) try(ctx *core.Ctx, name string, spec *v1.ExtendedDaemonSetSpec, f func()) (ok bool) {
	defer func() {
		if r := recover(); r != nil {
			ok = false
			c := spec.Strategy.Canary
			attrs := map[string]string{"func": name, "panic": firstLineOf(fmt.Sprint(r))}
			if c != nil {
				attrs["mode"] = string(c.ValidationMode)
				attrs["canaryTimeoutSet"] = fmt.Sprint(c.AutoFail != nil && c.AutoFail.CanaryTimeout != nil)
				attrs["durationSet"] = fmt.Sprint(c.Duration != nil)
			}
			ctx.Violation("C16", "C16.no-panic", attrs, specDesc(spec))
		}
	}()
	f()
	return true
}

func firstLineOf(s string) string {
	for i, c := range s {
		if c == '\n' {
			return s[:i]
		}
	}
	if len(s) > 120 {
		s = s[:120]
	}
	return s
}

func specDesc(s *v1.ExtendedDaemonSetSpec) map[string]any {
	ru := s.Strategy.RollingUpdate
	d := map[string]any{"maxUnavailable": iosS(ru.MaxUnavailable), "maxPodSchedulerFailure": iosS(ru.MaxPodSchedulerFailure), "slowStartAdditiveIncrease": iosS(ru.SlowStartAdditiveIncrease),
		"slowStartIntervalDuration": durS2(ru.SlowStartIntervalDuration), "maxParallelPodCreation": i32S(ru.MaxParallelPodCreation), "reconcileFrequency": durS2(s.Strategy.ReconcileFrequency)}
	if c := s.Strategy.Canary; c != nil {
		cd := map[string]any{"mode": string(c.ValidationMode), "duration": durS2(c.Duration), "noRestartsDuration": durS2(c.NoRestartsDuration), "replicas": iosS(c.Replicas)}
		if c.AutoFail != nil {
			cd["autoFail"] = fmt.Sprintf("enabled=%s maxRestarts=%s canaryTimeout=%s maxRestartsDuration=%s", boolS(c.AutoFail.Enabled), i32S(c.AutoFail.MaxRestarts), durS2(c.AutoFail.CanaryTimeout), durS2(c.AutoFail.MaxRestartsDuration))
		}
		if c.AutoPause != nil {
			cd["autoPause"] = fmt.Sprintf("enabled=%s maxRestarts=%s maxSlowStart=%s", boolS(c.AutoPause.Enabled), i32S(c.AutoPause.MaxRestarts), durS2(c.AutoPause.MaxSlowStartDuration))
		}
		d["canary"] = cd
	}
	return d
}
func iosS(v *intstr.IntOrString) string {
	if v == nil {
		return "absent"
	}
	return v.String()
}
func durS2(d *metav1.Duration) string {
	if d == nil {
		return "absent"
	}
	return d.Duration.String()
}
func i32S(i *int32) string {
	if i == nil {
		return "absent"
	}
	return fmt.Sprint(*i)
}
func boolS(b *bool) string {
	if b == nil {
		return "absent"
	}
	return fmt.Sprint(*b)
}

// judgePure runs Default/Default/IsDefaulted/Validate on one spec and applies the oracles.
func (e *C16) judgePure(ctx *core.Ctx, spec *v1.ExtendedDaemonSetSpec, dflt v1.ExtendedDaemonSetSpecStrategyCanaryValidationMode) *v1.ExtendedDaemonSet {
	ctx.Count("C16.pure-points")
	ctx.Count("evaluations")
	orig := spec.DeepCopy()
	ed := &v1.ExtendedDaemonSet{Spec: *spec}
	var d1, d2 *v1.ExtendedDaemonSet
	if !e.try(ctx, "Default", spec, func() { d1 = v1.DefaultExtendedDaemonSet(ed, dflt) }) || d1 == nil {
		return nil
	}
	if !reflect.DeepEqual(&ed.Spec, orig) {
		ctx.Violation("C16", "C16.default-mutates-input", nil, specDesc(orig))
	}
	e.try(ctx, "Default", spec, func() { d2 = v1.DefaultExtendedDaemonSet(d1, dflt) })
	if d2 != nil && !reflect.DeepEqual(d1, d2) {
		ctx.Violation("C16", "C16.idempotent", nil, specDesc(orig))
	}
	e.try(ctx, "IsDefaulted", spec, func() {
		if !v1.IsDefaultedExtendedDaemonSet(d1) {
			ctx.Violation("C16", "C16.recognised-as-defaulted", nil, specDesc(orig))
		}
	})
	// user values preserved (apart from template name cleared)
	if d1.Spec.Template.Name != "" {
		ctx.Violation("C16", "C16.template-name-cleared", nil, specDesc(orig))
	}
	ru0, ru1 := orig.Strategy.RollingUpdate, d1.Spec.Strategy.RollingUpdate
	chk := func(field string, was, is any, set bool) {
		if set && !reflect.DeepEqual(was, is) {
			ctx.Violation("C16", "C16.user-value-preserved", map[string]string{"field": field}, specDesc(orig))
		}
	}
	chk("maxUnavailable", ru0.MaxUnavailable, ru1.MaxUnavailable, ru0.MaxUnavailable != nil)
	chk("maxPodSchedulerFailure", ru0.MaxPodSchedulerFailure, ru1.MaxPodSchedulerFailure, ru0.MaxPodSchedulerFailure != nil)
	chk("slowStartAdditiveIncrease", ru0.SlowStartAdditiveIncrease, ru1.SlowStartAdditiveIncrease, ru0.SlowStartAdditiveIncrease != nil)
	chk("slowStartIntervalDuration", ru0.SlowStartIntervalDuration, ru1.SlowStartIntervalDuration, ru0.SlowStartIntervalDuration != nil)
	chk("maxParallelPodCreation", ru0.MaxParallelPodCreation, ru1.MaxParallelPodCreation, ru0.MaxParallelPodCreation != nil)
	chk("reconcileFrequency", orig.Strategy.ReconcileFrequency, d1.Spec.Strategy.ReconcileFrequency, orig.Strategy.ReconcileFrequency != nil)
	// every field the reconcilers dereference is filled
	if ru1.MaxUnavailable == nil || ru1.MaxPodSchedulerFailure == nil || ru1.SlowStartAdditiveIncrease == nil || ru1.SlowStartIntervalDuration == nil || ru1.MaxParallelPodCreation == nil || d1.Spec.Strategy.ReconcileFrequency == nil {
		ctx.Violation("C16", "C16.fields-filled", map[string]string{"where": "rollingUpdate"}, specDesc(orig))
	}
	if c0 := orig.Strategy.Canary; c0 != nil {
		c1 := d1.Spec.Strategy.Canary
		if c1 == nil {
			ctx.Violation("C16", "C16.user-value-preserved", map[string]string{"field": "canary"}, specDesc(orig))
			return d1
		}
		chk("canary.duration", c0.Duration, c1.Duration, c0.Duration != nil)
		chk("canary.noRestartsDuration", c0.NoRestartsDuration, c1.NoRestartsDuration, c0.NoRestartsDuration != nil)
		chk("canary.validationMode", c0.ValidationMode, c1.ValidationMode, c0.ValidationMode != "")
		chk("canary.replicas", c0.Replicas, c1.Replicas, c0.Replicas != nil)
		if c0.AutoFail != nil {
			chk("canary.autoFail.enabled", c0.AutoFail.Enabled, c1.AutoFail.Enabled, c0.AutoFail.Enabled != nil)
			chk("canary.autoFail.maxRestarts", c0.AutoFail.MaxRestarts, c1.AutoFail.MaxRestarts, c0.AutoFail.MaxRestarts != nil)
			chk("canary.autoFail.canaryTimeout", c0.AutoFail.CanaryTimeout, c1.AutoFail.CanaryTimeout, c0.AutoFail.CanaryTimeout != nil)
		}
		if c0.AutoPause != nil {
			chk("canary.autoPause.enabled", c0.AutoPause.Enabled, c1.AutoPause.Enabled, c0.AutoPause.Enabled != nil)
			chk("canary.autoPause.maxRestarts", c0.AutoPause.MaxRestarts, c1.AutoPause.MaxRestarts, c0.AutoPause.MaxRestarts != nil)
		}
		if c1.Replicas == nil || c1.ValidationMode == "" || c1.NodeSelector == nil || c1.AutoPause == nil || c1.AutoPause.Enabled == nil || c1.AutoPause.MaxRestarts == nil ||
			c1.AutoFail == nil || c1.AutoFail.Enabled == nil || c1.AutoFail.MaxRestarts == nil || (c1.ValidationMode == "auto" && c1.Duration == nil) {
			ctx.Violation("C16", "C16.fields-filled", map[string]string{"where": "canary"}, specDesc(orig))
			return d1
		}
		var verr error
		validated := e.try(ctx, "Validate", &d1.Spec, func() { verr = v1.ValidateExtendedDaemonSetSpec(&d1.Spec) })
		if validated {
			why := ""
			switch {
			case *c1.AutoFail.Enabled && *c1.AutoPause.Enabled && *c1.AutoFail.MaxRestarts < *c1.AutoPause.MaxRestarts:
				why = "autoFail.maxRestarts<autoPause.maxRestarts"
			case *c1.AutoFail.Enabled && c1.AutoFail.CanaryTimeout != nil && c1.Duration != nil && c1.AutoFail.CanaryTimeout.Duration <= c1.Duration.Duration:
				why = "canaryTimeout<=duration"
			case c1.ValidationMode == "manual" && c1.Duration != nil:
				why = "manual+duration"
			case c1.ValidationMode == "manual" && c1.NoRestartsDuration != nil:
				why = "manual+noRestartsDuration"
			}
			if why != "" {
				ctx.Count("C16.validate-rejections")
				if verr == nil {
					ctx.Violation("C16", "C16.validate-rejects", map[string]string{"why": why}, specDesc(orig))
				}
			}
		}
	} else {
		e.try(ctx, "Validate", &d1.Spec, func() { _ = v1.ValidateExtendedDaemonSetSpec(&d1.Spec) })
	}
	return d1
}

func (e *C16) pure(ctx *core.Ctx, shard int) {
	n := 0
	for _, mode := range c16Modes {
		for _, dflt := range c16Dflt {
			for _, dur := range c16Dur() {
				for _, nrd := range c16Dur() {
					for _, ct := range c16Dur() {
						for _, afE := range c16Bool() {
							for _, apE := range c16Bool() {
								for _, afM := range c16I32() {
									for _, apM := range c16I32() {
										n++
										if n%c16PureShards != shard {
											continue
										}
										spec := &v1.ExtendedDaemonSetSpec{}
										spec.Template = kit.Tpl("A")
										spec.Template.Name = "x"
										spec.Strategy.Canary = &v1.ExtendedDaemonSetSpecStrategyCanary{ValidationMode: mode, Duration: dur, NoRestartsDuration: nrd}
										if ct != nil || afE != nil || afM != nil {
											spec.Strategy.Canary.AutoFail = &v1.ExtendedDaemonSetSpecStrategyCanaryAutoFail{Enabled: afE, MaxRestarts: afM, CanaryTimeout: ct}
										}
										if apE != nil || apM != nil {
											spec.Strategy.Canary.AutoPause = &v1.ExtendedDaemonSetSpecStrategyCanaryAutoPause{Enabled: apE, MaxRestarts: apM}
										}
										e.judgePure(ctx, spec, dflt)
										if n%5003 == 0 {
											ctx.Distinct("nontrivial", fmt.Sprint(specDesc(spec)))
										}
									}
								}
							}
						}
					}
				}
			}
		}
	}
	for _, mu := range c16IOS() {
		for _, mpsf := range c16IOS() {
			for _, inc := range c16IOS() {
				for _, iv := range c16Dur() {
					for _, mp := range c16I32() {
						for _, rf := range c16Dur() {
							n++
							if n%c16PureShards != shard {
								continue
							}
							spec := &v1.ExtendedDaemonSetSpec{}
							spec.Template = kit.Tpl("A")
							spec.Strategy.RollingUpdate = v1.ExtendedDaemonSetSpecStrategyRollingUpdate{MaxUnavailable: mu, MaxPodSchedulerFailure: mpsf, SlowStartAdditiveIncrease: inc, SlowStartIntervalDuration: iv, MaxParallelPodCreation: mp}
							spec.Strategy.ReconcileFrequency = rf
							e.judgePure(ctx, spec, "auto")
						}
					}
				}
			}
		}
	}
	ctx.Distinct("nontrivial", fmt.Sprintf("pure-shard-%d", shard))
}

// scenario: a seeded spec from the lattice, stored, then driven through the life cycle.
func (e *C16) scenario(ctx *core.Ctx) {
	r := ctx.Rand
	ios, durs, i32s, bools := c16IOS(), c16Dur(), c16I32(), c16Bool()
	pickIOS := func(bias float64) *intstr.IntOrString {
		if r.Float64() < bias {
			return nil
		}
		return ios[r.Intn(len(ios))]
	}
	pickDur := func(bias float64) *metav1.Duration {
		if r.Float64() < bias {
			return nil
		}
		return durs[r.Intn(len(durs))]
	}
	spec := &v1.ExtendedDaemonSetSpec{}
	spec.Template = kit.Tpl("A")
	if r.Intn(4) == 0 {
		spec.Template.Name = "named"
	}
	// one or two hostile fields per spec, the rest mostly absent (so that each reaches deep code)
	spec.Strategy.RollingUpdate = v1.ExtendedDaemonSetSpecStrategyRollingUpdate{MaxUnavailable: pickIOS(0.6), MaxPodSchedulerFailure: pickIOS(0.6), SlowStartAdditiveIncrease: pickIOS(0.6), SlowStartIntervalDuration: pickDur(0.6)}
	if r.Intn(3) == 0 {
		spec.Strategy.RollingUpdate.MaxParallelPodCreation = i32s[r.Intn(len(i32s))]
	}
	spec.Strategy.ReconcileFrequency = pickDur(0.5)
	if r.Intn(3) != 0 {
		c := &v1.ExtendedDaemonSetSpecStrategyCanary{ValidationMode: c16Modes[r.Intn(3)], Duration: pickDur(0.5), NoRestartsDuration: pickDur(0.6), Replicas: pickIOS(0.5)}
		if r.Intn(2) == 0 {
			c.AutoFail = &v1.ExtendedDaemonSetSpecStrategyCanaryAutoFail{Enabled: bools[r.Intn(3)], MaxRestarts: i32s[r.Intn(len(i32s))], CanaryTimeout: pickDur(0.5), MaxRestartsDuration: pickDur(0.6)}
		}
		if r.Intn(2) == 0 {
			c.AutoPause = &v1.ExtendedDaemonSetSpecStrategyCanaryAutoPause{Enabled: bools[r.Intn(3)], MaxRestarts: i32s[r.Intn(len(i32s))], MaxSlowStartDuration: pickDur(0.6)}
		}
		if r.Intn(4) == 0 {
			c.NodeAntiAffinityKeys = []string{"zone"}
		}
		spec.Strategy.Canary = c
	}
	if r.Intn(3) == 0 {
		// a manifest that spells out everything the recogniser looks at but leaves other optional
		// fields out: default it, then drop optional fields one by one as long as it is still
		// recognised as defaulted. Defaulting never runs on such an object, so whatever the
		// reconcilers dereference must be guarded.
		var full *v1.ExtendedDaemonSet
		func() {
			defer func() { _ = recover() }()
			full = v1.DefaultExtendedDaemonSet(&v1.ExtendedDaemonSet{Spec: *spec}, c16Dflt[r.Intn(2)])
		}()
		if full != nil {
			sp := full.Spec.DeepCopy()
			drops := []func(*v1.ExtendedDaemonSetSpec){
				func(x *v1.ExtendedDaemonSetSpec) { x.Strategy.ReconcileFrequency = nil },
				func(x *v1.ExtendedDaemonSetSpec) { x.Strategy.RollingUpdate.MaxPodSchedulerFailure = nil },
				func(x *v1.ExtendedDaemonSetSpec) { x.Strategy.RollingUpdate.MaxParallelPodCreation = nil },
				func(x *v1.ExtendedDaemonSetSpec) { x.Strategy.RollingUpdate.SlowStartIntervalDuration = nil },
				func(x *v1.ExtendedDaemonSetSpec) { x.Strategy.RollingUpdate.SlowStartAdditiveIncrease = nil },
				func(x *v1.ExtendedDaemonSetSpec) { x.Strategy.RollingUpdate.MaxUnavailable = nil },
				func(x *v1.ExtendedDaemonSetSpec) {
					if c := x.Strategy.Canary; c != nil {
						c.NoRestartsDuration = nil
					}
				},
				func(x *v1.ExtendedDaemonSetSpec) {
					if c := x.Strategy.Canary; c != nil {
						c.Duration = nil
					}
				},
				func(x *v1.ExtendedDaemonSetSpec) {
					if c := x.Strategy.Canary; c != nil {
						c.Replicas = nil
					}
				},
				func(x *v1.ExtendedDaemonSetSpec) {
					if c := x.Strategy.Canary; c != nil {
						c.NodeSelector = nil
					}
				},
				func(x *v1.ExtendedDaemonSetSpec) {
					if c := x.Strategy.Canary; c != nil && c.AutoFail != nil {
						c.AutoFail.MaxRestartsDuration, c.AutoFail.CanaryTimeout = nil, nil
					}
				},
				func(x *v1.ExtendedDaemonSetSpec) {
					if c := x.Strategy.Canary; c != nil && c.AutoPause != nil {
						c.AutoPause.MaxSlowStartDuration = nil
					}
				},
				func(x *v1.ExtendedDaemonSetSpec) {
					if c := x.Strategy.Canary; c != nil {
						c.AutoFail = nil
					}
				},
				func(x *v1.ExtendedDaemonSetSpec) {
					if c := x.Strategy.Canary; c != nil {
						c.AutoPause = nil
					}
				},
			}
			dropped := 0
			for _, i := range r.Perm(len(drops)) {
				try := sp.DeepCopy()
				drops[i](try)
				ok := false
				func() {
					defer func() { _ = recover() }()
					ok = v1.IsDefaultedExtendedDaemonSet(&v1.ExtendedDaemonSet{Spec: *try})
				}()
				if ok && !reflect.DeepEqual(try, sp) {
					sp = try
					dropped++
				}
			}
			if dropped > 0 {
				ctx.Count("C16.sparse-but-recognised-specs")
				spec = sp
			}
		}
	}
	e.runScenario(ctx, spec)
}

// runScenario stores spec in a 3-node cluster and drives it through the life cycle.
func (e *C16) runScenario(ctx *core.Ctx, spec *v1.ExtendedDaemonSetSpec) {
	r := ctx.Rand
	ctx.Count("C16.scenarios")
	if ctx.Distinct("nontrivial", fmt.Sprint(specDesc(spec))) && r.Intn(40) == 0 {
		ctx.Sample(specDesc(spec))
	}
	dflt := r.Intn(2) == 1
	simapi.SetNow(kit.T0)
	s := simapi.NewStore()
	for i := 0; i < 3; i++ {
		s.Inject(kit.Node(fmt.Sprintf("n%d", i), map[string]string{"zone": []string{"a", "b", "a"}[i]}))
	}
	ctl := kit.NewControllers(s, kit.CtlOpts{DefaultManual: dflt, Affinity: r.Intn(2) == 0})
	user := s.NewClient("user", false)
	ed := &v1.ExtendedDaemonSet{ObjectMeta: metav1.ObjectMeta{Namespace: "ns", Name: "foo"}, Spec: *spec}
	if err := user.Create(nil, ed); err != nil {
		ctx.Note("create failed: " + err.Error())
		return
	}
	panicked := false
	rec := func(ctlName, name string) {
		if panicked {
			return
		}
		out := ctl.Reconcile(ctlName, "ns", name, "fn")
		ctx.Count("C16.scenario-reconciles")
		ctx.Count("evaluations")
		if out.Panic != "" {
			panicked = true
			attrs := map[string]string{"controller": ctlName, "panic": firstLineOf(out.Panic), "at": out.PanicAt}
			ru := spec.Strategy.RollingUpdate
			attrs["malformedPercent"] = fmt.Sprint(isMalformed(ru.MaxUnavailable) || isMalformed(ru.MaxPodSchedulerFailure) || isMalformed(ru.SlowStartAdditiveIncrease))
			attrs["zeroOrNegInterval"] = fmt.Sprint(ru.SlowStartIntervalDuration != nil && ru.SlowStartIntervalDuration.Duration <= 0)
			ctx.Violation("C16", "C16.no-panic", attrs, specDesc(spec))
		}
	}
	round := func() {
		simapi.Advance(11 * time.Second)
		rec("eds", "foo")
		rec("podtemplate", "foo")
		for _, rs := range kit.RSs(s) {
			rec("ers", rs.Name)
		}
		// minimal cooperative kubelet: bind + start + ready, finalise terminating. One round in three it is late: the
		// pods created in this round stay as the API server stored them (Pending, no container status, no start
		// time) and the next round's syncs see them like that
		if r.Intn(3) == 0 {
			return
		}
		for _, p := range kit.Pods(s) {
			if p.DeletionTimestamp != nil {
				s.Remove(simapi.KindPod, p.Namespace, p.Name)
				continue
			}
			node := kit.NodeOfPod(p)
			s.Mutate(simapi.KindPod, p.Namespace, p.Name, func(o clientObject) {
				pp := o.(*corev1.Pod)
				pp.Spec.NodeName = node
				pp.Status.Phase = corev1.PodRunning
				t := metav1.NewTime(kit.T0)
				pp.Status.StartTime = &t
				pp.Status.ContainerStatuses = []corev1.ContainerStatus{{Name: "main", Ready: true, RestartCount: int32(r.Intn(2) * 7), State: corev1.ContainerState{Running: &corev1.ContainerStateRunning{StartedAt: t}},
					LastTerminationState: corev1.ContainerState{Terminated: &corev1.ContainerStateTerminated{Reason: "Error", FinishedAt: t}}}}
				pp.Status.Conditions = []corev1.PodCondition{kit.ReadyCond(true, kit.T0)}
			})
		}
	}
	// defaulting must not loop: after two EDS reconciles the object is recognised as defaulted
	rec("eds", "foo")
	rec("eds", "foo")
	if st := kit.GetEDS(s, "ns", "foo"); st != nil && !panicked {
		isD := false
		func() {
			defer func() { _ = recover() }()
			isD = v1.IsDefaultedExtendedDaemonSet(st)
		}()
		if !isD {
			ctx.Violation("C16", "C16.defaulting-loop", nil, specDesc(spec))
		}
	}
	for i := 0; i < 4; i++ {
		round()
	}
	s.Mutate(simapi.KindEDS, "ns", "foo", func(o clientObject) { o.(*v1.ExtendedDaemonSet).Spec.Template = kit.Tpl("B") })
	for i := 0; i < 5; i++ {
		round()
	}
	if e := kit.GetEDS(s, "ns", "foo"); e != nil && e.Status.Canary != nil {
		s.Mutate(simapi.KindEDS, "ns", "foo", func(o clientObject) {
			ee := o.(*v1.ExtendedDaemonSet)
			if ee.Annotations == nil {
				ee.Annotations = map[string]string{}
			}
			ee.Annotations[v1.ExtendedDaemonSetCanaryValidAnnotationKey] = ee.Status.Canary.ReplicaSet
		})
	}
	simapi.Advance(15 * time.Minute)
	for i := 0; i < 4; i++ {
		round()
	}
}

func isMalformed(v *intstr.IntOrString) bool {
	if v == nil {
		return false
	}
	_, ok := kit.Resolve(v, 10)
	return !ok
}
