package fn

import (
	"fmt"
	"k8s.io/apimachinery/pkg/types"
	"regexp"
	"sort"
	"time"

	corev1 "k8s.io/api/core/v1"
	metav1 "k8s.io/apimachinery/pkg/apis/meta/v1"
	"k8s.io/kube-state-metrics/v2/pkg/metric"
	generator "k8s.io/kube-state-metrics/v2/pkg/metric_generator"

	v1 "github.com/DataDog/extendeddaemonset/api/v1alpha1"
	edsctl "github.com/DataDog/extendeddaemonset/controllers/extendeddaemonset"
	ersctl "github.com/DataDog/extendeddaemonset/controllers/extendeddaemonsetreplicaset"
	"github.com/DataDog/extendeddaemonset/pkg/controller/utils"

	"vh/core"
	"vh/kit"
)

// C20 engine: metric families and label-info series.
type C20 struct{}

func (e *C20) Name() string { return "fn.c20" }
func (e *C20) Rule() string {
	return "seeded objects: status counters from {0,1,2,7,250}, canary/paused/failed/state combinations; label maps of 0-8 labels drawn from plain keys, dotted/slashed/dashed keys (incl. the controller's own extendeddaemonset.datadoghq.com/name), keys colliding after sanitising, and the empty map; every family generator of both kinds is invoked (via the verif shim) and BuildInfoLabels directly; non-trivial = distinct label maps containing a key that sanitising changes"
}
func (e *C20) Cases(tier string, _ int64) int {
	if tier == "thorough" {
		return 400
	}
	return 40
}
func (e *C20) Floors(string) map[string]int {
	return map[string]int{"C20.objects": 5000, "C20.gauges-judged": 50000, "C20.label-maps-with-special-keys": 2000, "C20.colliding-maps": 200, "C20.empty-maps": 100}
}

var c20invalid = regexp.MustCompile(`[^a-zA-Z0-9_]`)

var c20uid int

func sanitise(k string) string { return c20invalid.ReplaceAllString(k, "_") }

var c20Keys = []string{"app", "team", "tier_1", "extendeddaemonset.datadoghq.com/name", "app.kubernetes.io/name", "app.kubernetes.io/managed-by", "my-label", "a.b", "a/b", "a_b", "a-b", "x.y/z-w",
	// keys whose relative order changes when they are sanitised ('.', '/', '-' sort before digits and
	// upper-case letters, their replacement '_' after them)
	"a0", "aB", "app2", "appVersion", "x.y0", "x.yZ"}

func (e *C20) Run(ctx *core.Ctx, idx int) {
	for i := 0; i < 300; i++ {
		e.one(ctx)
	}
}

func famByName(fs []generator.FamilyGenerator) map[string]generator.FamilyGenerator {
	m := map[string]generator.FamilyGenerator{}
	for _, f := range fs {
		m[f.Name] = f
	}
	return m
}

func (e *C20) one(ctx *core.Ctx) {
	r := ctx.Rand
	vals := []int32{0, 1, 2, 7, 250}
	pick := func() int32 { return vals[r.Intn(len(vals))] }
	lbls := map[string]string{}
	nl := r.Intn(9)
	if r.Intn(10) == 0 {
		nl = 0
	}
	for len(lbls) < nl {
		k := c20Keys[r.Intn(len(c20Keys))]
		lbls[k] = fmt.Sprintf("v%d-%s", r.Intn(4), k)
	}
	if r.Intn(3) == 0 {
		// keys of a large family: over a run the process sees hundreds of distinct label keys
		for i := 0; i < 2; i++ {
			k := fmt.Sprintf("tenant-%d.example.com/%s", r.Intn(300), []string{"owner", "cost-center"}[r.Intn(2)])
			lbls[k] = fmt.Sprintf("v%d-%s", r.Intn(4), k)
		}
	}
	if len(lbls) > 1 && r.Intn(6) == 0 {
		// a marker label: legal, with an empty value
		for k := range lbls {
			lbls[k] = ""
			break
		}
	}
	special, collide := false, false
	seenS := map[string]bool{}
	for k := range lbls {
		if sanitise(k) != k {
			special = true
		}
		if seenS[sanitise(k)] {
			collide = true
		}
		seenS[sanitise(k)] = true
	}
	ctx.Count("evaluations")
	ctx.Count("C20.objects")
	if special {
		ctx.Count("C20.label-maps-with-special-keys")
	}
	if collide {
		ctx.Count("C20.colliding-maps")
	}
	if len(lbls) == 0 {
		ctx.Count("C20.empty-maps")
	}
	var lblCopy map[string]string
	if len(lbls) > 0 || r.Intn(2) == 0 {
		lblCopy = map[string]string{}
		for k, v := range lbls {
			lblCopy[k] = v
		}
	}
	// objects served by an API server have a UID and a generation; labels are metadata, so editing
	// them does not change the generation
	c20uid++
	meta := metav1.ObjectMeta{Name: "foo", Namespace: "ns", Labels: lblCopy, CreationTimestamp: metav1.NewTime(kit.T0), UID: types.UID(fmt.Sprintf("uid-%d", c20uid)), Generation: 1 + int64(r.Intn(3))}
	if r.Intn(6) == 0 {
		// being deleted behind a finalizer: the object is still served and still has a status to report
		dt := metav1.NewTime(kit.T0.Add(time.Hour))
		meta.DeletionTimestamp, meta.Finalizers = &dt, []string{"foregroundDeletion"}
		ctx.Count("C20.terminating-objects")
	}
	keyStr := fmt.Sprint(sortedKV(lbls))
	if special {
		if ctx.Distinct("nontrivial", keyStr) {
			ctx.Sample(map[string]any{"labels": lbls})
		}
	}
	attrs := map[string]string{"specialKeys": fmt.Sprint(special), "colliding": fmt.Sprint(collide)}

	// --- BuildInfoLabels: multiset {(sanitise(k), v)}
	checkInfo := func(where string, keys, values []string, skip int) {
		if len(keys) != len(values) {
			ctx.Violation("C20", "C20.label-arity", attrs, map[string]any{"where": where, "keys": keys, "values": values})
			return
		}
		got := []string{}
		for i := skip; i < len(keys); i++ {
			got = append(got, keys[i]+"="+values[i])
		}
		want := []string{}
		for k, v := range lbls {
			want = append(want, sanitise(k)+"="+v)
		}
		sort.Strings(got)
		sort.Strings(want)
		if fmt.Sprint(got) != fmt.Sprint(want) {
			ctx.Violation("C20", "C20.label-pairs", attrs, map[string]any{"where": where, "labels": lbls, "got": got, "want": want})
		}
	}
	func() {
		defer func() {
			if x := recover(); x != nil {
				ctx.Violation("C20", "C20.no-panic", map[string]string{"panic": fmt.Sprint(x)}, lbls)
			}
		}()
		k, v := utils.BuildInfoLabels(&meta)
		checkInfo("BuildInfoLabels", k, v, 0)
	}()

	// --- ExtendedDaemonSet families
	eds := &v1.ExtendedDaemonSet{ObjectMeta: meta}
	eds.Status = v1.ExtendedDaemonSetStatus{Desired: pick(), Current: pick(), Ready: pick(), Available: pick(), UpToDate: pick(), IgnoredUnresponsiveNodes: pick()}
	eds.Status.State = []v1.ExtendedDaemonSetStatusState{v1.ExtendedDaemonSetStatusStateRunning, v1.ExtendedDaemonSetStatusStateRollingUpdatePaused, v1.ExtendedDaemonSetStatusStateRolloutFrozen, v1.ExtendedDaemonSetStatusStateCanary, v1.ExtendedDaemonSetStatusStateCanaryPaused, v1.ExtendedDaemonSetStatusStateCanaryFailed}[r.Intn(6)]
	if r.Intn(2) == 0 {
		eds.Status.Canary = &v1.ExtendedDaemonSetStatusCanary{ReplicaSet: "foo-b"}
		for i := 0; i < r.Intn(4); i++ {
			eds.Status.Canary.Nodes = append(eds.Status.Canary.Nodes, fmt.Sprintf("n%d", i))
		}
	}
	pausedCond := r.Intn(3) == 0
	if pausedCond {
		eds.Status.Conditions = append(eds.Status.Conditions, v1.ExtendedDaemonSetCondition{Type: v1.ConditionTypeEDSCanaryPaused, Status: corev1.ConditionTrue, Reason: "ImagePullBackOff"})
	} else if r.Intn(3) == 0 {
		eds.Status.Conditions = append(eds.Status.Conditions, v1.ExtendedDaemonSetCondition{Type: v1.ConditionTypeEDSCanaryPaused, Status: corev1.ConditionFalse})
	}
	b2f := func(b bool) float64 {
		if b {
			return 1
		}
		return 0
	}
	nNodes := 0
	if eds.Status.Canary != nil {
		nNodes = len(eds.Status.Canary.Nodes)
	}
	edsWant := map[string]float64{
		"eds_status_desired": float64(eds.Status.Desired), "eds_status_current": float64(eds.Status.Current), "eds_status_ready": float64(eds.Status.Ready),
		"eds_status_available": float64(eds.Status.Available), "eds_status_uptodate": float64(eds.Status.UpToDate),
		"eds_status_ignored_unresponsive_nodes": float64(eds.Status.IgnoredUnresponsiveNodes),
		"eds_status_canary_activated":           b2f(eds.Status.Canary != nil),
		"eds_status_canary_node_number":         float64(nNodes),
		"eds_status_canary_paused":              b2f(eds.Status.Canary != nil && pausedCond),
		"eds_status_rolling_update_paused":      b2f(eds.Status.State == v1.ExtendedDaemonSetStatusStateRollingUpdatePaused),
		"eds_status_rollout_frozen":             b2f(eds.Status.State == v1.ExtendedDaemonSetStatusStateRolloutFrozen),
		"eds_created":                           float64(kit.T0.Unix()),
		"eds_labels":                            1,
	}

	// --- replica-set families
	ers := &v1.ExtendedDaemonSetReplicaSet{ObjectMeta: meta}
	ers.Status = v1.ExtendedDaemonSetReplicaSetStatus{Desired: pick(), Current: pick(), Ready: pick(), Available: pick(), IgnoredUnresponsiveNodes: pick()}
	failed := r.Intn(3) == 0
	if failed {
		ers.Status.Conditions = append(ers.Status.Conditions, v1.ExtendedDaemonSetReplicaSetCondition{Type: v1.ConditionTypeCanaryFailed, Status: corev1.ConditionTrue})
	} else if r.Intn(3) == 0 {
		ers.Status.Conditions = append(ers.Status.Conditions, v1.ExtendedDaemonSetReplicaSetCondition{Type: v1.ConditionTypeCanaryFailed, Status: corev1.ConditionFalse})
	}
	ersWant := map[string]float64{
		"ers_status_desired": float64(ers.Status.Desired), "ers_status_current": float64(ers.Status.Current), "ers_status_ready": float64(ers.Status.Ready),
		"ers_status_available": float64(ers.Status.Available), "ers_status_ignored_unresponsive_nodes": float64(ers.Status.IgnoredUnresponsiveNodes),
		"ers_status_canary_failed": b2f(failed), "ers_created": float64(kit.T0.Unix()), "ers_labels": 1,
	}
	// Like the metrics store, generate every family of both objects first (in declaration order)
	// and look at the series afterwards: a series must not change because a later one was built.
	edsFams, ersFams := edsctl.VerifMetricFamilies(), ersctl.VerifMetricFamilies()
	edsGen := e.generateAll(ctx, edsFams, eds)
	e.judgeFamilies(ctx, "eds", edsFams, edsGen, eds, edsWant, attrs, checkInfo)
	ersGen := e.generateAll(ctx, ersFams, ers)
	e.judgeFamilies(ctx, "ers", ersFams, ersGen, ers, ersWant, attrs, checkInfo)
	// the same object relabelled (same UID, same generation: label edits are metadata changes): the
	// regenerated series must follow the new labels
	if len(lbls) > 0 {
		relabelled := eds.DeepCopy()
		newL := map[string]string{}
		i := 0
		for k, v := range lbls {
			switch i % 3 {
			case 0:
				newL[k] = v + "-changed"
			case 1: // removed
			default:
				newL[k] = v
			}
			i++
		}
		newL["added.after/creation"] = "new"
		relabelled.Labels = newL
		saved := lbls
		lbls = newL
		attrs3 := map[string]string{"specialKeys": "true", "colliding": attrs["colliding"], "after": "relabel"}
		oldAttrs := attrs
		attrs = attrs3
		ctx.Count("C20.relabels-judged")
		reGen := e.generateAll(ctx, edsFams, relabelled)
		if g := reGen["eds_labels"]; g.panic == "" && g.fam != nil && len(g.fam.Metrics) == 1 {
			checkInfo("eds_labels", g.fam.Metrics[0].LabelKeys, g.fam.Metrics[0].LabelValues, 2)
		}
		func() {
			defer func() { _ = recover() }()
			k, v := utils.BuildInfoLabels(&relabelled.ObjectMeta)
			checkInfo("BuildInfoLabels", k, v, 0)
		}()
		attrs = oldAttrs
		lbls = saved
	}
	// the store keeps the series of earlier objects while later ones are generated: the series of a
	// second, differently labelled object must not disturb those of the first
	other := &v1.ExtendedDaemonSet{ObjectMeta: metav1.ObjectMeta{Name: "other", Namespace: "ns", Labels: map[string]string{"zz.other/label": "o1", "zz-second": "o2"}}}
	other.Status.Canary = &v1.ExtendedDaemonSetStatusCanary{ReplicaSet: "other-x"}
	_ = e.generateAll(ctx, edsFams, other)
	attrs2 := map[string]string{"specialKeys": attrs["specialKeys"], "colliding": attrs["colliding"], "after": "another-object"}
	e.judgeFamilies(ctx, "eds", edsFams, edsGen, eds, edsWant, attrs2, func(w string, k, v []string, skip int) {
		old := attrs
		attrs = attrs2
		checkInfo(w, k, v, skip)
		attrs = old
	})
	e.judgeFamilies(ctx, "ers", ersFams, ersGen, ers, ersWant, attrs2, func(w string, k, v []string, skip int) {
		old := attrs
		attrs = attrs2
		checkInfo(w, k, v, skip)
		attrs = old
	})
}

type c20Gen struct {
	fam   *metric.Family
	panic string
}

func (e *C20) generateAll(ctx *core.Ctx, fams []generator.FamilyGenerator, obj any) map[string]c20Gen {
	out := map[string]c20Gen{}
	for _, f := range fams {
		func() {
			g := c20Gen{}
			defer func() {
				if x := recover(); x != nil {
					g.panic = fmt.Sprint(x)
				}
				out[f.Name] = g
			}()
			g.fam = f.GenerateFunc(obj)
		}()
	}
	return out
}

func (e *C20) judgeFamilies(ctx *core.Ctx, kind string, fams []generator.FamilyGenerator, gen map[string]c20Gen, obj any, want map[string]float64, attrs map[string]string, checkInfo func(string, []string, []string, int)) {
	byName := famByName(fams)
	for name, w := range want {
		if _, ok := byName[name]; !ok {
			ctx.Violation("C20", "C20.family-missing", map[string]string{"family": name}, nil)
			continue
		}
		func() {
			if gen[name].panic != "" {
				ctx.Violation("C20", "C20.no-panic", map[string]string{"panic": gen[name].panic, "family": name}, nil)
				return
			}
			fam := gen[name].fam
			ctx.Count("C20.gauges-judged")
			if fam == nil || len(fam.Metrics) != 1 {
				ctx.Violation("C20", "C20.series-count", map[string]string{"family": name}, nil)
				return
			}
			m := fam.Metrics[0]
			if m.Value != w {
				a := map[string]string{"family": name}
				ctx.Violation("C20", "C20.gauge-value", a, map[string]any{"got": m.Value, "want": w, "object": fmt.Sprintf("%+v", obj)})
			}
			if len(m.LabelKeys) != len(m.LabelValues) || len(m.LabelKeys) < 2 || m.LabelKeys[0] != "namespace" || m.LabelValues[0] != "ns" || m.LabelKeys[1] != "name" || m.LabelValues[1] != "foo" {
				ctx.Violation("C20", "C20.identity-labels", map[string]string{"family": name}, map[string]any{"keys": m.LabelKeys, "values": m.LabelValues})
			}
			if name == kind+"_labels" {
				checkInfo(name, m.LabelKeys, m.LabelValues, 2)
			}
		}()
	}
	for name := range byName {
		if _, ok := want[name]; !ok {
			ctx.Count("C20.unjudged-family:" + name)
		}
	}
}

func sortedKV(m map[string]string) []string {
	out := []string{}
	for k, v := range m {
		out = append(out, k+"="+v)
	}
	sort.Strings(out)
	return out
}
