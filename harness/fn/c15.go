package fn

import (
	"fmt"
	"math/rand"
	"sort"
	"time"

	corev1 "k8s.io/api/core/v1"
	metav1 "k8s.io/apimachinery/pkg/apis/meta/v1"
	"k8s.io/apimachinery/pkg/util/intstr"

	v1 "github.com/DataDog/extendeddaemonset/api/v1alpha1"

	"vh/core"
	"vh/kit"
	"vh/oracle"
	"vh/simapi"
)

// C15 engine: canary node selection through the real EDS Reconcile.
type C15 struct{}

func (e *C15) Name() string { return "fn.c15" }
func (e *C15) Rule() string {
	return "seeded node populations (3-10 nodes; zone/pool labels; taints; restart history of their pods) x replicas {1,2,3,25%,50%,100%} x canary nodeSelector x anti-affinity keys {none, zone} x previously selected list (empty, partial, partly invalid); one real EDS Reconcile, then one churn action on a selected node (delete, relabel, taint) and a second Reconcile; non-trivial = distinct (population, replicas, selector, keys, previous list) tuples"
}
func (e *C15) Cases(tier string, _ int64) int {
	if tier == "thorough" {
		return 640
	}
	return 64
}
func (e *C15) Floors(string) map[string]int {
	return map[string]int{"C15.selections-judged": 5000, "C15.percent-cases": 1500, "C15.churn-judged": 2000, "C15.antiaffinity-cases": 2000, "C15.prev-list-cases": 2000}
}

type c15Node struct {
	Name     string
	Zone     string
	Fit, Sel bool
	Restarts int
}

func (e *C15) Run(ctx *core.Ctx, idx int) {
	for i := 0; i < 150; i++ {
		e.one(ctx)
	}
}

func c15Zone(r *rand.Rand, skew bool) string {
	if skew && r.Intn(4) != 0 {
		return "b"
	}
	return []string{"a", "b", "c"}[r.Intn(3)]
}

func (e *C15) one(ctx *core.Ctx) {
	r := ctx.Rand
	now := kit.T0
	simapi.SetNow(now)
	s := simapi.NewStore()
	nn := 3 + r.Intn(8)
	if r.Intn(4) == 0 {
		nn = 13 + r.Intn(40) // a cluster large enough for sort algorithms, quotas and percentages to behave differently
	}
	repOpts := []intstr.IntOrString{intstr.FromInt(1), intstr.FromInt(2), intstr.FromInt(3), intstr.FromString("25%"), intstr.FromString("50%"), intstr.FromString("100%")}
	rep := repOpts[r.Intn(len(repOpts))]
	useAA := r.Intn(2) == 0
	useSel := r.Intn(3) == 0
	canary := &v1.ExtendedDaemonSetSpecStrategyCanary{Replicas: &rep, Duration: &metav1.Duration{Duration: time.Hour}}
	if useAA {
		canary.NodeAntiAffinityKeys = []string{"zone"}
	}
	if useSel {
		// the same set of nodes written in the three ways a label selector allows
		switch r.Intn(3) {
		case 0:
			canary.NodeSelector = &metav1.LabelSelector{MatchLabels: map[string]string{"pool": "c"}}
		case 1:
			canary.NodeSelector = &metav1.LabelSelector{MatchExpressions: []metav1.LabelSelectorRequirement{{Key: "pool", Operator: metav1.LabelSelectorOpIn, Values: []string{"c", "d"}}}}
		default:
			canary.NodeSelector = &metav1.LabelSelector{MatchExpressions: []metav1.LabelSelectorRequirement{{Key: "pool", Operator: metav1.LabelSelectorOpExists}}}
		}
	}
	skew := r.Intn(2) == 0 // most nodes in one zone: the per-value quota of the spreading is binding
	eds := kit.NewEDS("ns", "foo", "B", canary)
	eds.UID = "uid-eds"
	rsA := kit.NewRS(s, eds, "foo-a", kit.Tpl("A"), now.Add(-time.Hour))
	rsB := kit.NewRS(s, eds, "foo-b", kit.Tpl("B"), now.Add(-time.Minute))
	var nodes []c15Node
	tplB := kit.Tpl("B")
	for i := 0; i < nn; i++ {
		ni := c15Node{Name: fmt.Sprintf("n%d", i), Zone: c15Zone(r, skew), Fit: r.Intn(5) != 0, Sel: r.Intn(3) != 0, Restarts: []int{0, 0, 1, 3, 7}[r.Intn(5)]}
		lbl := map[string]string{"zone": ni.Zone}
		if ni.Sel {
			lbl["pool"] = "c"
		}
		var taints []corev1.Taint
		if !ni.Fit {
			taints = []corev1.Taint{{Key: "dedicated", Value: "x", Effect: corev1.TaintEffectNoSchedule}}
		}
		n := kit.Node(ni.Name, lbl, taints...)
		s.Inject(n)
		if oracle.Eligible(n, &tplB.Spec) != ni.Fit {
			panic("oracle/generator disagreement on fitness")
		}
		if ni.Fit {
			p := &corev1.Pod{ObjectMeta: metav1.ObjectMeta{Name: "pod-" + ni.Name, Namespace: "ns", Labels: map[string]string{v1.ExtendedDaemonSetNameLabelKey: "foo", kit.MarkerLabel: "A"}}, Spec: corev1.PodSpec{NodeName: ni.Name}}
			p.Status.Phase = corev1.PodRunning
			p.Status.ContainerStatuses = []corev1.ContainerStatus{{Name: "main", RestartCount: int32(ni.Restarts)}}
			s.Inject(p)
		}
		nodes = append(nodes, ni)
	}
	valid := func(ni c15Node) bool { return ni.Fit && (!useSel || ni.Sel) }
	targeted := 0
	for _, ni := range nodes {
		if ni.Fit {
			targeted++
		}
	}
	want, _ := kit.Resolve(&rep, targeted)
	rsA.Status = v1.ExtendedDaemonSetReplicaSetStatus{Status: "active", Desired: int32(targeted), Current: int32(targeted), Ready: int32(targeted), Available: int32(targeted)}
	eds.Status.ActiveReplicaSet = "foo-a"
	eds.Status.Desired = int32(targeted)
	var prev []string
	prevInvalid := false
	_ = prevInvalid
	if r.Intn(2) == 0 {
		for _, ni := range nodes {
			if len(prev) < want-1 && valid(ni) && r.Intn(2) == 0 {
				prev = append(prev, ni.Name)
			}
		}
		if r.Intn(4) == 0 {
			for _, ni := range nodes {
				if !valid(ni) && ni.Sel || !ni.Fit {
					prev = append(prev, ni.Name)
					prevInvalid = true
					break
				}
			}
		}
	}
	firstSelection := r.Intn(3) == 0 && len(prev) == 0
	if !firstSelection {
		eds.Status.Canary = &v1.ExtendedDaemonSetStatusCanary{ReplicaSet: "foo-b", Nodes: prev}
		eds.Status.State = v1.ExtendedDaemonSetStatusStateCanary
		rsB.Status = v1.ExtendedDaemonSetReplicaSetStatus{Status: "canary", Desired: int32(len(prev))}
		eds.Status.Desired = int32(targeted) // active desired excludes canary nodes in reality; keep the documented base
	}
	if r.Intn(5) == 0 {
		// a paused canary is still a canary: its nodes are selected and kept like those of any other
		eds.Annotations[v1.ExtendedDaemonSetCanaryPausedAnnotationKey] = "true"
		ctx.Count("C15.paused-canary-cases")
	}
	s.Inject(eds)
	s.Inject(rsA)
	s.Inject(rsB)
	ctl := kit.NewControllers(s, kit.CtlOpts{})
	isPercent := rep.Type == intstr.String
	desc := map[string]any{"replicas": rep.String(), "resolvedAgainstTargeted": want, "targeted": targeted, "antiAffinity": useAA, "selector": useSel, "nodes": nodes, "previous": prev}
	attrsBase := func(phase string) map[string]string {
		return map[string]string{"replicas.kind": map[bool]string{true: "percent", false: "int"}[isPercent], "antiAffinity": fmt.Sprint(useAA), "phase": phase}
	}
	key := fmt.Sprintf("%s|%v|%v|%v|%v", rep.String(), useAA, useSel, nodes, prev)
	if ctx.Distinct("nontrivial", key) && isPercent && useAA {
		ctx.Sample(desc)
	}
	ctx.Count("evaluations")
	if isPercent {
		ctx.Count("C15.percent-cases")
	}
	if useAA {
		ctx.Count("C15.antiaffinity-cases")
	}
	if len(prev) > 0 {
		ctx.Count("C15.prev-list-cases")
	}

	judge := func(phase string, prevList []string, nodesNow []c15Node, gone map[string]bool) []string {
		out := ctl.Reconcile("eds", "ns", "foo", "fn")
		attrs := attrsBase(phase)
		if out.Panic != "" {
			attrs["panic"] = out.Panic
			ctx.Violation("C15", "C15.no-panic", attrs, desc)
			return nil
		}
		got := kit.GetEDS(s, "ns", "foo")
		if got.Status.Canary == nil {
			if out.Err == nil {
				ctx.Violation("C15", "C15.canary-status-missing", attrs, desc)
			}
			return nil
		}
		byName := map[string]c15Node{}
		nvalid := 0
		targetedNow := 0
		for _, ni := range nodesNow {
			byName[ni.Name] = ni
			if valid(ni) {
				nvalid++
			}
			if ni.Fit {
				targetedNow++
			}
		}
		wantNow, _ := kit.Resolve(&rep, targetedNow)
		sel := got.Status.Canary.Nodes
		d := map[string]any{"case": desc, "phase": phase, "nodesNow": nodesNow, "selected": sel, "err": fmt.Sprint(out.Err), "want": wantNow}
		fail := func(rule string, extra map[string]string) {
			a := attrsBase(phase)
			for k, v := range extra {
				a[k] = v
			}
			ctx.Violation("C15", rule, a, d)
		}
		if out.Err == nil {
			ctx.Count("C15.selections-judged")
		} else {
			ctx.Count("C15.selection-errors")
		}
		seen := map[string]bool{}
		// when fewer valid nodes exist than requested the reconcile must report an error and the
		// stored list is then left as it was (the statement leaves its content open in that state)
		excused := out.Err != nil && nvalid < wantNow
		for _, x := range sel {
			if seen[x] {
				fail("C15.distinct", nil)
			}
			seen[x] = true
			ni, ok := byName[x]
			if excused {
				continue
			}
			origin := "newly-added"
			for _, p := range prevList {
				if p == x {
					origin = "kept-from-previous-list"
				}
			}
			// the controller re-runs its selection only when the list length differs from the wanted count
			selectionRan := fmt.Sprint(len(prevList) != wantNow)
			switch {
			case !ok:
				fail("C15.valid", map[string]string{"cause": "node-does-not-exist", "origin": origin, "selectionRan": selectionRan})
			case !ni.Fit:
				fail("C15.valid", map[string]string{"cause": "node-not-eligible", "origin": origin, "selectionRan": selectionRan})
			case useSel && !ni.Sel:
				fail("C15.valid", map[string]string{"cause": "node-does-not-match-canary-selector", "origin": origin, "selectionRan": selectionRan})
			}
		}
		for _, p := range prevList {
			if ni, ok := byName[p]; ok && valid(ni) && !seen[p] && out.Err == nil {
				fail("C15.stable", nil)
			}
		}
		// "never exceeds it through the controller's own choice": only nodes the controller
		// added in this reconcile count (a percentage that shrinks under node churn is not its choice)
		prevSet := map[string]bool{}
		for _, p := range prevList {
			prevSet[p] = true
		}
		added, kept := 0, 0
		for _, x := range sel {
			if prevSet[x] {
				kept++
			} else {
				added++
			}
		}
		if room := wantNow - kept; added > 0 && added > room {
			fail("C15.count-max", nil)
		}
		if out.Err == nil && len(sel) < wantNow {
			fail("C15.count-min-silent", nil)
		}
		if out.Err != nil && nvalid >= wantNow && wantNow > 0 {
			fail("C15.error-despite-enough", nil)
		}
		if out.Err != nil {
			return sel
		}
		zoneCount := map[string]int{}
		zones := map[string]bool{}
		for _, ni := range nodesNow {
			if valid(ni) {
				zones[ni.Zone] = true
			}
		}
		for _, x := range sel {
			if ni, ok := byName[x]; ok && valid(ni) { // stale entries are C15.valid's business
				zoneCount[ni.Zone]++
			}
		}
		for _, x := range sel {
			if prevSet[x] {
				continue
			}
			for _, y := range nodesNow {
				if seen[y.Name] || !valid(y) {
					continue
				}
				if (!useAA || y.Zone == byName[x].Zone) && y.Restarts < byName[x].Restarts {
					fail("C15.preference", nil)
				}
			}
			if useAA && len(zones) > 0 {
				// spreading: a newly added node must not push its value above ceil(replicas / #values)
				// while an unselected valid node of a value still below that quota existed
				limit := (wantNow + len(zones) - 1) / len(zones)
				if zoneCount[byName[x].Zone] > limit {
					for _, y := range nodesNow {
						if !seen[y.Name] && valid(y) && zoneCount[y.Zone] < limit {
							fail("C15.spread", nil)
							break
						}
					}
				}
			}
		}
		return sel
	}
	if r.Intn(6) == 0 && len(prev) < want {
		// the reconcile is overtaken: between its read and its status write the user replaces the canary node
		// selector by one that no node satisfies. Whatever the reconcile does about the refused write, it must
		// not store nodes chosen for the selector that is gone.
		ctx.Count("C15.overtaken-by-selector-edit-judged")
		done := false
		ctl.CEDS.Hook = func(phase string, c *simapi.Call) {
			if phase == "pre" && !done && c.Kind == simapi.KindEDS && c.Verb == "status-update" {
				done = true
				s.Mutate(simapi.KindEDS, "ns", "foo", func(o clientObject) {
					o.(*v1.ExtendedDaemonSet).Spec.Strategy.Canary.NodeSelector = &metav1.LabelSelector{MatchLabels: map[string]string{"pool": "none"}}
				})
			}
		}
		out := ctl.Reconcile("eds", "ns", "foo", "fn")
		ctl.CEDS.Hook = nil
		if out.Panic != "" {
			a := attrsBase("overtaken-by-selector-edit")
			a["panic"] = out.Panic
			ctx.Violation("C15", "C15.no-panic", a, desc)
			return
		}
		got := kit.GetEDS(s, "ns", "foo")
		if done && got.Status.Canary != nil {
			was := map[string]bool{}
			for _, p := range prev {
				was[p] = true
			}
			for _, x := range got.Status.Canary.Nodes {
				if !was[x] {
					a := attrsBase("overtaken-by-selector-edit")
					a["cause"], a["origin"], a["selectionRan"] = "node-does-not-match-canary-selector", "newly-added", "true"
					ctx.Violation("C15", "C15.valid", a, map[string]any{"case": desc, "stored-selector": got.Spec.Strategy.Canary.NodeSelector, "stored-nodes": got.Status.Canary.Nodes, "reconcile-error": fmt.Sprint(out.Err)})
					break
				}
			}
		}
		return
	}
	sel := judge("initial", prev, nodes, nil)
	if sel == nil || len(sel) == 0 {
		return
	}
	// churn on one selected node while the canary runs, counts unchanged
	victim := sel[r.Intn(len(sel))]
	action := []string{"delete", "relabel", "taint"}[r.Intn(3)]
	if action == "relabel" && !useSel {
		action = "taint"
	}
	var nodes2 []c15Node
	for _, ni := range nodes {
		if ni.Name == victim {
			switch action {
			case "delete":
				s.Remove(simapi.KindNode, "", victim)
				continue
			case "relabel":
				ni.Sel = false
				s.Mutate(simapi.KindNode, "", victim, func(o clientObject) { delete(o.(*corev1.Node).Labels, "pool") })
			case "taint":
				ni.Fit = false
				s.Mutate(simapi.KindNode, "", victim, func(o clientObject) {
					o.(*corev1.Node).Spec.Taints = []corev1.Taint{{Key: "dedicated", Value: "x", Effect: corev1.TaintEffectNoSchedule}}
				})
			}
		}
		nodes2 = append(nodes2, ni)
	}
	// keep the targeted count the EDS reports unchanged in the delete/taint case only when the
	// percentage base is unaffected; the active replica set would lower desired by one
	t2 := 0
	for _, ni := range nodes2 {
		if ni.Fit {
			t2++
		}
	}
	s.Mutate(simapi.KindEDS, "ns", "foo", func(o clientObject) { o.(*v1.ExtendedDaemonSet).Status.Desired = int32(t2) })
	simapi.Advance(15 * time.Second)
	ctx.Count("C15.churn-judged")
	ctx.Count("C15.churn-" + action)
	sort.Strings(sel)
	sel2 := judge("after-"+action, sel, nodes2, nil)
	// the user then asks for one more canary node: the selection runs again and has to drop what the
	// churn invalidated instead of keeping it next to the new nodes
	if sel2 == nil || rep.Type != intstr.Int || r.Intn(2) == 0 {
		return
	}
	rep = intstr.FromInt(int(rep.IntVal) + 1)
	s.Mutate(simapi.KindEDS, "ns", "foo", func(o clientObject) {
		x := rep
		o.(*v1.ExtendedDaemonSet).Spec.Strategy.Canary.Replicas = &x
	})
	simapi.Advance(15 * time.Second)
	ctx.Count("C15.churn-then-more-replicas-judged")
	prev2 := append([]string{}, sel2...)
	sort.Strings(prev2)
	judge("after-"+action+"-then-more-replicas", prev2, nodes2, nil)
}
