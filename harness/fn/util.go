package fn

import "sigs.k8s.io/controller-runtime/pkg/client"

type clientObject = client.Object
