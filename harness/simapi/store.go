// Package simapi is an in-memory double of the Kubernetes API server, purpose-built for
// observing the extendeddaemonset controllers (DESIGN.md 2.2): deterministic names/UIDs,
// virtual time, graceful pod termination, status subresources, optimistic concurrency,
// per-actor clients, invocation records, fault injection and a totally ordered call log.
package simapi

import (
	"encoding/json"
	"fmt"
	"reflect"
	"sort"
	"strings"
	"sync"
	"time"

	appsv1 "k8s.io/api/apps/v1"
	corev1 "k8s.io/api/core/v1"
	apierrors "k8s.io/apimachinery/pkg/api/errors"
	"k8s.io/apimachinery/pkg/api/meta"
	metav1 "k8s.io/apimachinery/pkg/apis/meta/v1"
	"k8s.io/apimachinery/pkg/labels"
	"k8s.io/apimachinery/pkg/runtime"
	"k8s.io/apimachinery/pkg/runtime/schema"
	"k8s.io/apimachinery/pkg/types"
	clientgoscheme "k8s.io/client-go/kubernetes/scheme"
	"sigs.k8s.io/controller-runtime/pkg/client"
	"sigs.k8s.io/controller-runtime/pkg/client/apiutil"

	edsv1 "github.com/DataDog/extendeddaemonset/api/v1alpha1"
	"github.com/DataDog/extendeddaemonset/pkg/verifclock"
)

// Kinds the double knows about.
const (
	KindEDS     = "ExtendedDaemonSet"
	KindERS     = "ExtendedDaemonSetReplicaSet"
	KindSetting = "ExtendedDaemonsetSetting"
	KindPod     = "Pod"
	KindNode    = "Node"
	KindPodTpl  = "PodTemplate"
	KindDS      = "DaemonSet"
)

var clusterScoped = map[string]bool{KindNode: true}
var statusSubresource = map[string]bool{KindEDS: true, KindERS: true, KindSetting: true, KindPod: true, KindDS: true, KindNode: true}

// NewScheme returns a scheme with the core kinds and the EDS API group.
func NewScheme() *runtime.Scheme {
	s := runtime.NewScheme()
	_ = clientgoscheme.AddToScheme(s)
	_ = edsv1.AddToScheme(s)
	return s
}

// EventType of a store change.
type EventType string

const (
	Added    EventType = "ADDED"
	Modified EventType = "MODIFIED"
	Deleted  EventType = "DELETED"
)

// Event is a watch event emitted after each mutation.
type Event struct {
	Type EventType
	Kind string
	Old  client.Object
	New  client.Object
}

// Store is the API-server double. Stored objects are immutable: every write replaces the
// stored pointer, so records may keep references to stored objects without copying.
type Store struct {
	mu       sync.Mutex
	Scheme   *runtime.Scheme
	objs     map[string]map[string]client.Object
	rv       uint64
	uidN     uint64
	nameN    uint64
	seq      uint64
	watchers []func(Event)

	// Fault is consulted (under the store lock) for every call issued through a faultable
	// actor client; nil means no faults.
	Fault func(c *Call) FaultKind
	// Trace receives every completed call (under the lock) when non-nil.
	Trace func(c *Call)
	// Calls counts calls by "verb kind".
	CallCount map[string]int
}

// NewStore returns an empty store.
func NewStore() *Store {
	return &Store{Scheme: NewScheme(), objs: map[string]map[string]client.Object{}, CallCount: map[string]int{}}
}

// Now is the virtual instant.
func (s *Store) Now() time.Time { return verifclock.Now() }

// SetNow moves the virtual clock.
func SetNow(t time.Time) { verifclock.Set(t) }

// Advance moves the virtual clock forward.
func Advance(d time.Duration) { verifclock.Set(verifclock.Now().Add(d)) }

// Subscribe registers a watch callback (called under the store lock; must not call the store).
func (s *Store) Subscribe(f func(Event)) { s.watchers = append(s.watchers, f) }

func (s *Store) emit(e Event) {
	for _, w := range s.watchers {
		w(e)
	}
}

func keyOf(ns, name string) string { return ns + "/" + name }

// KindOf returns the kind of a typed object.
func (s *Store) KindOf(obj runtime.Object) string {
	gvk, err := apiutil.GVKForObject(obj, s.Scheme)
	if err != nil {
		panic(fmt.Sprintf("simapi: unknown type %T: %v", obj, err))
	}
	return gvk.Kind
}

func (s *Store) newObj(kind string) client.Object {
	var gv schema.GroupVersion
	switch kind {
	case KindEDS, KindERS, KindSetting:
		gv = edsv1.GroupVersion
	case KindDS:
		gv = appsv1.SchemeGroupVersion
	default:
		gv = corev1.SchemeGroupVersion
	}
	o, err := s.Scheme.New(gv.WithKind(kind))
	if err != nil {
		panic(err)
	}
	return o.(client.Object)
}

// roundTrip returns a wire-normalised private copy (JSON round trip: second-truncated
// times, nil/empty normalisation) of obj.
func (s *Store) roundTrip(kind string, obj client.Object) (client.Object, error) {
	b, err := json.Marshal(obj)
	if err != nil {
		return nil, err
	}
	out := s.newObj(kind)
	if err := json.Unmarshal(b, out); err != nil {
		return nil, err
	}
	// An API server stores custom resources as the JSON the user sent: a quantity written "1000m" is
	// served as "1000m", whereas the typed round trip above would canonicalise it to "1" (built-in
	// types such as pods ARE canonicalised by the server). Keep the submitted form for settings.
	if in, ok := obj.(*edsv1.ExtendedDaemonsetSetting); ok {
		st := out.(*edsv1.ExtendedDaemonsetSetting)
		for i := range st.Spec.Containers {
			if i < len(in.Spec.Containers) {
				st.Spec.Containers[i].Resources = *in.Spec.Containers[i].Resources.DeepCopy()
			}
		}
	}
	return out, nil
}

func setInto(dst, src client.Object) {
	cp := src.DeepCopyObject()
	reflect.ValueOf(dst).Elem().Set(reflect.ValueOf(cp).Elem())
}

func (s *Store) bucket(kind string) map[string]client.Object {
	b := s.objs[kind]
	if b == nil {
		b = map[string]client.Object{}
		s.objs[kind] = b
	}
	return b
}

func (s *Store) nextRV() string { s.rv++; return fmt.Sprintf("%d", s.rv) }

const suffixAlphabet = "bcdfghjklmnpqrstvwxz2456789"

func (s *Store) nextSuffix() string {
	s.nameN++
	n := s.nameN*7919 + 104729 // spread, deterministic, unique for < 27^5/7919 names per store
	b := make([]byte, 5)
	for i := range b {
		b[i] = suffixAlphabet[n%uint64(len(suffixAlphabet))]
		n /= uint64(len(suffixAlphabet))
	}
	return string(b) + fmt.Sprintf("%x", s.nameN)
}

// ---- privileged (environment) API: no records, no faults ------------------------------

// Inject stores obj as given (status included), assigning UID/RV/creationTimestamp when unset.
func (s *Store) Inject(obj client.Object) client.Object {
	s.mu.Lock()
	defer s.mu.Unlock()
	return s.injectLocked(obj)
}

func (s *Store) injectLocked(obj client.Object) client.Object {
	kind := s.KindOf(obj)
	st, err := s.roundTrip(kind, obj)
	if err != nil {
		panic(err)
	}
	if st.GetName() == "" && st.GetGenerateName() != "" {
		st.SetName(st.GetGenerateName() + s.nextSuffix())
	}
	if st.GetUID() == "" {
		s.uidN++
		st.SetUID(types.UID(fmt.Sprintf("uid-%d", s.uidN)))
	}
	if ct := st.GetCreationTimestamp(); ct.IsZero() {
		st.SetCreationTimestamp(metav1.NewTime(s.Now().Truncate(time.Second)))
	}
	st.SetResourceVersion(s.nextRV())
	k := keyOf(st.GetNamespace(), st.GetName())
	old := s.bucket(kind)[k]
	if kind != KindPod && kind != KindNode && st.GetGeneration() == 0 {
		st.SetGeneration(1) // as the API server does for a freshly created object
	}
	s.bucket(kind)[k] = st
	if old == nil {
		s.emit(Event{Type: Added, Kind: kind, New: st})
	} else {
		s.emit(Event{Type: Modified, Kind: kind, Old: old, New: st})
	}
	setInto(obj, st)
	return st
}

// Peek returns the stored (immutable, do not modify) object or nil.
func (s *Store) Peek(kind, ns, name string) client.Object {
	s.mu.Lock()
	defer s.mu.Unlock()
	return s.objs[kind][keyOf(ns, name)]
}

// All returns the stored objects of a kind sorted by key (immutable, do not modify).
func (s *Store) All(kind string) []client.Object {
	s.mu.Lock()
	defer s.mu.Unlock()
	return s.allLocked(kind)
}

func (s *Store) allLocked(kind string) []client.Object {
	b := s.objs[kind]
	keys := make([]string, 0, len(b))
	for k := range b {
		keys = append(keys, k)
	}
	sort.Strings(keys)
	out := make([]client.Object, 0, len(keys))
	for _, k := range keys {
		out = append(out, b[k])
	}
	return out
}

// Mutate applies f to a private copy of the stored object and stores the result
// (environment action: kubelet, scheduler, user edits outside the client seam).
// Returns false when the object does not exist.
func (s *Store) Mutate(kind, ns, name string, f func(o client.Object)) bool {
	s.mu.Lock()
	defer s.mu.Unlock()
	old := s.objs[kind][keyOf(ns, name)]
	if old == nil {
		return false
	}
	cp := old.DeepCopyObject().(client.Object)
	f(cp)
	st, err := s.roundTrip(kind, cp)
	if err != nil {
		panic(err)
	}
	if kind != KindPod && kind != KindNode && specChanged(old, st) {
		st.SetGeneration(old.GetGeneration() + 1)
	}
	st.SetResourceVersion(s.nextRV())
	s.bucket(kind)[keyOf(ns, name)] = st
	s.emit(Event{Type: Modified, Kind: kind, Old: old, New: st})
	return true
}

// Remove deletes the object outright (finalisation of a terminating pod, GC, node removal).
func (s *Store) Remove(kind, ns, name string) bool {
	s.mu.Lock()
	defer s.mu.Unlock()
	return s.removeLocked(kind, ns, name)
}

func (s *Store) removeLocked(kind, ns, name string) bool {
	old := s.objs[kind][keyOf(ns, name)]
	if old == nil {
		return false
	}
	delete(s.objs[kind], keyOf(ns, name))
	s.emit(Event{Type: Deleted, Kind: kind, Old: old})
	return true
}

// Snapshot returns a shallow copy of the whole store (objects are immutable).
func (s *Store) Snapshot() map[string][]client.Object {
	s.mu.Lock()
	defer s.mu.Unlock()
	out := map[string][]client.Object{}
	for k := range s.objs {
		out[k] = s.allLocked(k)
	}
	return out
}

// Seq returns the number of client calls served so far.
func (s *Store) Seq() uint64 { s.mu.Lock(); defer s.mu.Unlock(); return s.seq }

// ---- server-side verbs (called by Client under the lock) -------------------------------

func gr(kind string) schema.GroupResource {
	return schema.GroupResource{Resource: strings.ToLower(kind) + "s"}
}

func (s *Store) get(kind, ns, name string) (client.Object, error) {
	o := s.objs[kind][keyOf(ns, name)]
	if o == nil {
		return nil, apierrors.NewNotFound(gr(kind), name)
	}
	return o, nil
}

func (s *Store) list(kind, ns string, sel labels.Selector) []client.Object {
	var out []client.Object
	for _, o := range s.allLocked(kind) {
		if ns != "" && o.GetNamespace() != ns {
			continue
		}
		if sel != nil && !sel.Matches(labels.Set(o.GetLabels())) {
			continue
		}
		out = append(out, o)
	}
	return out
}

func (s *Store) create(kind string, obj client.Object) (client.Object, error) {
	st, err := s.roundTrip(kind, obj)
	if err != nil {
		return nil, err
	}
	if clusterScoped[kind] {
		st.SetNamespace("")
	} else if st.GetNamespace() == "" {
		return nil, apierrors.NewBadRequest("namespace required")
	}
	if st.GetName() == "" {
		if st.GetGenerateName() == "" {
			return nil, apierrors.NewBadRequest("name or generateName required")
		}
		st.SetName(st.GetGenerateName() + s.nextSuffix())
	}
	k := keyOf(st.GetNamespace(), st.GetName())
	if s.objs[kind][k] != nil {
		return nil, apierrors.NewAlreadyExists(gr(kind), st.GetName())
	}
	if st.GetResourceVersion() != "" {
		return nil, apierrors.NewBadRequest("resourceVersion should not be set on objects to be created")
	}
	s.uidN++
	st.SetUID(types.UID(fmt.Sprintf("uid-%d", s.uidN)))
	st.SetCreationTimestamp(metav1.NewTime(s.Now().Truncate(time.Second)))
	st.SetDeletionTimestamp(nil)
	st.SetResourceVersion(s.nextRV())
	st.SetGeneration(1)
	if statusSubresource[kind] {
		clearStatus(st)
	}
	s.bucket(kind)[k] = st
	s.emit(Event{Type: Added, Kind: kind, New: st})
	return st, nil
}

func clearStatus(o client.Object) {
	switch t := o.(type) {
	case *edsv1.ExtendedDaemonSet:
		t.Status = edsv1.ExtendedDaemonSetStatus{}
	case *edsv1.ExtendedDaemonSetReplicaSet:
		t.Status = edsv1.ExtendedDaemonSetReplicaSetStatus{}
	case *edsv1.ExtendedDaemonsetSetting:
		t.Status = edsv1.ExtendedDaemonsetSettingStatus{}
	case *corev1.Pod:
		t.Status = corev1.PodStatus{Phase: corev1.PodPending}
	case *appsv1.DaemonSet:
		t.Status = appsv1.DaemonSetStatus{}
	case *corev1.Node:
		t.Status = corev1.NodeStatus{}
	}
}

func copyStatus(dst, src client.Object) {
	switch t := dst.(type) {
	case *edsv1.ExtendedDaemonSet:
		t.Status = *src.(*edsv1.ExtendedDaemonSet).Status.DeepCopy()
	case *edsv1.ExtendedDaemonSetReplicaSet:
		t.Status = *src.(*edsv1.ExtendedDaemonSetReplicaSet).Status.DeepCopy()
	case *edsv1.ExtendedDaemonsetSetting:
		t.Status = *src.(*edsv1.ExtendedDaemonsetSetting).Status.DeepCopy()
	case *corev1.Pod:
		t.Status = *src.(*corev1.Pod).Status.DeepCopy()
	case *appsv1.DaemonSet:
		t.Status = *src.(*appsv1.DaemonSet).Status.DeepCopy()
	case *corev1.Node:
		t.Status = *src.(*corev1.Node).Status.DeepCopy()
	}
}

// update implements both Update (sub=false) and Status().Update (sub=true).
func (s *Store) update(kind string, obj client.Object, sub bool) (client.Object, client.Object, error) {
	k := keyOf(obj.GetNamespace(), obj.GetName())
	old := s.objs[kind][k]
	if old == nil {
		return nil, nil, apierrors.NewNotFound(gr(kind), obj.GetName())
	}
	if rv := obj.GetResourceVersion(); rv != "" && rv != old.GetResourceVersion() {
		return old, nil, apierrors.NewConflict(gr(kind), obj.GetName(), fmt.Errorf("the object has been modified; please apply your changes to the latest version and try again"))
	}
	in, err := s.roundTrip(kind, obj)
	if err != nil {
		return old, nil, err
	}
	var st client.Object
	if sub {
		st = old.DeepCopyObject().(client.Object)
		copyStatus(st, in)
	} else {
		st = in
		if statusSubresource[kind] {
			copyStatus(st, old)
		}
		// server-owned metadata
		st.SetUID(old.GetUID())
		st.SetCreationTimestamp(old.GetCreationTimestamp())
		st.SetDeletionTimestamp(old.GetDeletionTimestamp())
		st.SetDeletionGracePeriodSeconds(old.GetDeletionGracePeriodSeconds())
		st.SetGeneration(old.GetGeneration())
		if kind != KindPod && kind != KindNode && specChanged(old, st) {
			// metadata.generation counts the changes of the desired state (everything but metadata and status)
			st.SetGeneration(old.GetGeneration() + 1)
		}
	}
	// the last finalizer of an object that is being deleted was removed: the object goes away
	if !sub && kind != KindPod && st.GetDeletionTimestamp() != nil && len(st.GetFinalizers()) == 0 {
		delete(s.objs[kind], k)
		s.emit(Event{Type: Deleted, Kind: kind, Old: old})
		return old, st, nil
	}
	st.SetResourceVersion(s.nextRV())
	s.bucket(kind)[k] = st
	s.emit(Event{Type: Modified, Kind: kind, Old: old, New: st})
	return old, st, nil
}

// patchMerge applies a JSON merge patch.
// sub = the patch goes to the status subresource: only the status part of the result is kept.
// A merge patch carries no resourceVersion unless the caller asked for an optimistic lock, in
// which case a stale one is a conflict.
func (s *Store) patchMerge(kind string, obj client.Object, data []byte, sub bool) (client.Object, client.Object, error) {
	k := keyOf(obj.GetNamespace(), obj.GetName())
	old := s.objs[kind][k]
	if old == nil {
		return nil, nil, apierrors.NewNotFound(gr(kind), obj.GetName())
	}
	var probe struct {
		Metadata struct {
			ResourceVersion string `json:"resourceVersion"`
		} `json:"metadata"`
	}
	if json.Unmarshal(data, &probe) == nil && probe.Metadata.ResourceVersion != "" && probe.Metadata.ResourceVersion != old.GetResourceVersion() {
		return old, nil, apierrors.NewConflict(gr(kind), obj.GetName(), fmt.Errorf("the object has been modified; please apply your changes to the latest version and try again"))
	}
	ob, err := json.Marshal(old)
	if err != nil {
		return old, nil, err
	}
	merged, err := mergePatch(ob, data)
	if err != nil {
		return old, nil, apierrors.NewBadRequest(err.Error())
	}
	st := s.newObj(kind)
	if err := json.Unmarshal(merged, st); err != nil {
		return old, nil, apierrors.NewBadRequest(err.Error())
	}
	if sub {
		patched := st
		st = old.DeepCopyObject().(client.Object)
		copyStatus(st, patched)
	} else if statusSubresource[kind] {
		copyStatus(st, old)
	}
	st.SetUID(old.GetUID())
	st.SetCreationTimestamp(old.GetCreationTimestamp())
	st.SetDeletionTimestamp(old.GetDeletionTimestamp())
	st.SetDeletionGracePeriodSeconds(old.GetDeletionGracePeriodSeconds())
	st.SetGeneration(old.GetGeneration())
	if !sub && kind != KindPod && kind != KindNode && specChanged(old, st) {
		st.SetGeneration(old.GetGeneration() + 1)
	}
	if !sub && kind != KindPod && st.GetDeletionTimestamp() != nil && len(st.GetFinalizers()) == 0 {
		delete(s.objs[kind], k)
		s.emit(Event{Type: Deleted, Kind: kind, Old: old})
		return old, st, nil
	}
	st.SetResourceVersion(s.nextRV())
	s.bucket(kind)[k] = st
	s.emit(Event{Type: Modified, Kind: kind, Old: old, New: st})
	return old, st, nil
}

// delete implements server-side deletion semantics. Pods terminate gracefully unless
// unbound or already finished.
func (s *Store) delete(kind string, obj client.Object) (client.Object, client.Object, error) {
	k := keyOf(obj.GetNamespace(), obj.GetName())
	old := s.objs[kind][k]
	if old == nil {
		return nil, nil, apierrors.NewNotFound(gr(kind), obj.GetName())
	}
	if kind == KindPod {
		p := old.(*corev1.Pod)
		immediate := p.Spec.NodeName == "" || p.Status.Phase == corev1.PodFailed || p.Status.Phase == corev1.PodSucceeded
		if !immediate {
			if p.DeletionTimestamp != nil {
				return old, old, nil // already terminating
			}
			st := p.DeepCopy()
			grace := int64(30)
			if p.Spec.TerminationGracePeriodSeconds != nil {
				grace = *p.Spec.TerminationGracePeriodSeconds
			}
			now := metav1.NewTime(s.Now().Truncate(time.Second))
			st.DeletionTimestamp = &now
			st.DeletionGracePeriodSeconds = &grace
			st.SetResourceVersion(s.nextRV())
			s.bucket(kind)[k] = st
			s.emit(Event{Type: Modified, Kind: kind, Old: old, New: st})
			return old, st, nil
		}
	}
	if kind != KindPod && len(old.GetFinalizers()) > 0 {
		// finalizers hold the object back: it is only marked as being deleted
		if old.GetDeletionTimestamp() != nil {
			return old, old, nil
		}
		st := old.DeepCopyObject().(client.Object)
		now := metav1.NewTime(s.Now().Truncate(time.Second))
		st.SetDeletionTimestamp(&now)
		st.SetResourceVersion(s.nextRV())
		s.bucket(kind)[k] = st
		s.emit(Event{Type: Modified, Kind: kind, Old: old, New: st})
		return old, st, nil
	}
	delete(s.objs[kind], k)
	s.emit(Event{Type: Deleted, Kind: kind, Old: old})
	return old, nil, nil
}

// listKind derives the item kind of a list object.
func (s *Store) listKind(list client.ObjectList) string {
	gvk, err := apiutil.GVKForObject(list, s.Scheme)
	if err != nil {
		panic(fmt.Sprintf("simapi: unknown list type %T: %v", list, err))
	}
	return strings.TrimSuffix(gvk.Kind, "List")
}

func setListItems(list client.ObjectList, items []client.Object) error {
	objs := make([]runtime.Object, len(items))
	for i, it := range items {
		objs[i] = it.DeepCopyObject()
	}
	return meta.SetList(list, objs)
}

// specChanged reports whether two versions of an object differ outside metadata and status.
func specChanged(a, b client.Object) bool {
	strip := func(o client.Object) map[string]any {
		raw, err := json.Marshal(o)
		if err != nil {
			return nil
		}
		m := map[string]any{}
		if err := json.Unmarshal(raw, &m); err != nil {
			return nil
		}
		delete(m, "metadata")
		delete(m, "status")
		return m
	}
	return !reflect.DeepEqual(strip(a), strip(b))
}
