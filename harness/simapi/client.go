package simapi

import (
	"context"
	"errors"
	"fmt"
	metav1 "k8s.io/apimachinery/pkg/apis/meta/v1"
	"runtime"
	"strings"

	jsonpatch "github.com/evanphx/json-patch/v5"
	apierrors "k8s.io/apimachinery/pkg/api/errors"
	"k8s.io/apimachinery/pkg/api/meta"
	k8sruntime "k8s.io/apimachinery/pkg/runtime"
	"k8s.io/apimachinery/pkg/runtime/schema"
	"k8s.io/apimachinery/pkg/types"
	"sigs.k8s.io/controller-runtime/pkg/client"
)

func mergePatch(doc, patch []byte) ([]byte, error) { return jsonpatch.MergePatch(doc, patch) }

// FaultKind is what the injector does to one call.
type FaultKind int

const (
	NoFault    FaultKind = iota
	Reject               // error returned, not applied
	LostReply            // applied, error returned
	StopBefore           // process stops before the call: this and all later calls of the invocation are void
	StopAfter            // call applied, process stops: all later calls of the invocation are void
)

func (f FaultKind) String() string {
	return [...]string{"none", "reject", "lost-reply", "stop-before", "stop-after"}[f]
}

// Outcome of a call.
const (
	OutOK        = "ok"
	OutStoreErr  = "store-error"
	OutRejected  = "injected-reject"
	OutLostReply = "injected-lost-reply"
	OutVoid      = "void-after-crash"
)

// ErrInjected is the error returned for injected faults.
var ErrInjected = errors.New("injected fault")

// InjectedError carries a unique id so that conservation of errors can be checked.
type InjectedError struct {
	ID   string
	Kind FaultKind
	// Class selects the API reason a rejected call reports (all rejected calls of one invocation report the same one)
	Class int
}

func (e *InjectedError) Error() string { return fmt.Sprintf("injected fault %s (%s)", e.ID, e.Kind) }
func (e *InjectedError) Unwrap() error { return ErrInjected }

// Status makes an injected failure look like what an API server (or the path to it) returns, so
// that code classifying errors with k8s.io/apimachinery/pkg/api/errors sees realistic reasons: a
// call whose answer was lost is a gateway timeout (it may have been applied), a rejected call is
// a 503 (not applied).
func (e *InjectedError) Status() metav1.Status {
	st := metav1.Status{Status: metav1.StatusFailure, Message: e.Error()}
	switch e.Kind {
	case LostReply, StopAfter:
		st.Reason, st.Code = metav1.StatusReasonTimeout, 504
	default:
		// a rejected call: unavailable, or refused by quota / admission / authorisation, an internal error, or throttling
		switch e.Class % 4 {
		case 1:
			st.Reason, st.Code = metav1.StatusReasonForbidden, 403
		case 2:
			st.Reason, st.Code = metav1.StatusReasonInternalError, 500
		case 3:
			st.Reason, st.Code = metav1.StatusReasonTooManyRequests, 429
		default:
			st.Reason, st.Code = metav1.StatusReasonServiceUnavailable, 503
		}
	}
	return st
}

// Call is one API call as observed at the client seam.
type Call struct {
	Seq      uint64
	Actor    string
	Inv      *Invocation
	Verb     string // get list create update status-update patch delete
	Kind     string
	NS, Name string
	Selector string
	// reads
	Objs []client.Object // objects returned (stored, immutable)
	// writes
	Submitted client.Object // private copy of what the caller sent
	PatchData []byte
	Pre, Post client.Object // stored images before/after (immutable); Post nil when removed
	Outcome   string
	Err       error
	Callsite  string
	Fault     FaultKind
	Nested    bool // issued while another invocation's call was suspended (N mode)
}

// IsWrite reports whether the call is a mutating verb.
func (c *Call) IsWrite() bool { return c.Verb != "get" && c.Verb != "list" }

// Applied reports whether the write changed the store.
func (c *Call) Applied() bool { return c.Outcome == OutOK || c.Outcome == OutLostReply }

// Invocation is the record of one Reconcile call (or one command body).
type Invocation struct {
	ID            int
	Controller    string
	NS, Name      string
	VTimeUnix     int64
	VTimeNanos    int64
	EndVTimeNanos int64 // virtual time when the invocation returned (differs from VTimeNanos only in N mode)
	Mode          string
	Calls         []*Call
	Dead          bool // process stopped by an injected fault
	Nested        bool // another actor acted between two calls of this invocation (N mode)
	ResultStr     string
	Err           error
	Panic         string
}

// Reads returns the read calls.
func (i *Invocation) Reads() []*Call {
	var out []*Call
	for _, c := range i.Calls {
		if !c.IsWrite() {
			out = append(out, c)
		}
	}
	return out
}

// Writes returns the write calls.
func (i *Invocation) Writes() []*Call {
	var out []*Call
	for _, c := range i.Calls {
		if c.IsWrite() {
			out = append(out, c)
		}
	}
	return out
}

// Client is an actor-tagged client over a Store.
type Client struct {
	S         *Store
	Actor     string
	Faultable bool
	// Cur is the invocation in flight on this actor (set by the driver).
	Cur *Invocation
	// Hook, when set, is called before ("pre") and after ("post") every call, outside the
	// store lock (N-mode yield point, C-mode jitter).
	Hook func(phase string, c *Call)
}

var _ client.Client = &Client{}

// NewClient returns a client for an actor.
func (s *Store) NewClient(actor string, faultable bool) *Client {
	return &Client{S: s, Actor: actor, Faultable: faultable}
}

// Begin starts a new invocation record on this actor.
func (c *Client) Begin(id int, controller, ns, name, mode string) *Invocation {
	now := c.S.Now()
	inv := &Invocation{ID: id, Controller: controller, NS: ns, Name: name, VTimeUnix: now.Unix(), VTimeNanos: now.UnixNano(), Mode: mode}
	c.S.mu.Lock()
	c.Cur = inv
	c.S.mu.Unlock()
	return inv
}

// End closes the current invocation.
func (c *Client) End() {
	c.S.mu.Lock()
	if c.Cur != nil {
		c.Cur.EndVTimeNanos = c.S.Now().UnixNano()
	}
	c.Cur = nil
	c.S.mu.Unlock()
}

const repoMod = "github.com/DataDog/extendeddaemonset/"

func callsite() string {
	var pcs [24]uintptr
	n := runtime.Callers(3, pcs[:])
	frames := runtime.CallersFrames(pcs[:n])
	var out []string
	for {
		f, more := frames.Next()
		if strings.HasPrefix(f.Function, repoMod) {
			fn := f.Function[strings.LastIndex(f.Function, "/")+1:]
			out = append(out, fn)
			if len(out) == 3 {
				break
			}
		}
		if !more {
			break
		}
	}
	return strings.Join(out, "<")
}

// do runs one call: fault decision, server verb, record.
func (c *Client) do(call *Call, apply func() error) error {
	call.Actor = c.Actor
	if call.IsWrite() {
		call.Callsite = callsite()
	}
	if c.Hook != nil {
		c.Hook("pre", call)
	}
	s := c.S
	s.mu.Lock()
	s.seq++
	call.Seq = s.seq
	inv := c.Cur
	call.Inv = inv
	s.CallCount[call.Verb+" "+call.Kind]++
	var err error
	switch {
	case inv != nil && inv.Dead:
		call.Outcome = OutVoid
		err = &InjectedError{ID: fmt.Sprintf("void-%d", call.Seq), Kind: StopBefore}
	default:
		fk := NoFault
		if c.Faultable && s.Fault != nil {
			fk = s.Fault(call)
		}
		call.Fault = fk
		switch fk {
		case Reject:
			call.Outcome = OutRejected
			class := 0
			if inv != nil {
				class = inv.ID
			}
			err = &InjectedError{ID: fmt.Sprintf("f-%d", call.Seq), Kind: fk, Class: class}
		case StopBefore:
			call.Outcome = OutVoid
			if inv != nil {
				inv.Dead = true
			}
			err = &InjectedError{ID: fmt.Sprintf("f-%d", call.Seq), Kind: fk}
		default:
			err = apply()
			if err != nil {
				call.Outcome = OutStoreErr
			} else {
				call.Outcome = OutOK
			}
			if fk == LostReply && err == nil {
				call.Outcome = OutLostReply
				err = &InjectedError{ID: fmt.Sprintf("f-%d", call.Seq), Kind: fk}
			}
			if fk == StopAfter {
				if inv != nil {
					inv.Dead = true
				}
				if err == nil {
					call.Outcome = OutLostReply
					err = &InjectedError{ID: fmt.Sprintf("f-%d", call.Seq), Kind: fk}
				}
			}
		}
	}
	call.Err = err
	if inv != nil {
		inv.Calls = append(inv.Calls, call)
	}
	if s.Trace != nil {
		s.Trace(call)
	}
	s.mu.Unlock()
	if c.Hook != nil {
		c.Hook("post", call)
	}
	return err
}

// Get implements client.Reader.
func (c *Client) Get(_ context.Context, key client.ObjectKey, obj client.Object, _ ...client.GetOption) error {
	kind := c.S.KindOf(obj)
	call := &Call{Verb: "get", Kind: kind, NS: key.Namespace, Name: key.Name}
	// the caller's object is only filled when the answer arrives (a lost reply leaves it untouched)
	var got client.Object
	err := c.do(call, func() error {
		o, err := c.S.get(kind, key.Namespace, key.Name)
		if err != nil {
			return err
		}
		call.Objs = []client.Object{o}
		got = o
		return nil
	})
	if err == nil && got != nil {
		setInto(obj, got)
	}
	return err
}

// List implements client.Reader.
func (c *Client) List(_ context.Context, list client.ObjectList, opts ...client.ListOption) error {
	kind := c.S.listKind(list)
	lo := client.ListOptions{}
	lo.ApplyOptions(opts)
	call := &Call{Verb: "list", Kind: kind, NS: lo.Namespace}
	if lo.LabelSelector != nil {
		call.Selector = lo.LabelSelector.String()
	}
	var items []client.Object
	err := c.do(call, func() error {
		items = c.S.list(kind, lo.Namespace, lo.LabelSelector)
		call.Objs = items
		return nil
	})
	if err == nil {
		return setListItems(list, items)
	}
	return err
}

// Create implements client.Writer.
func (c *Client) Create(_ context.Context, obj client.Object, _ ...client.CreateOption) error {
	kind := c.S.KindOf(obj)
	call := &Call{Verb: "create", Kind: kind, NS: obj.GetNamespace(), Name: obj.GetName(), Submitted: obj.DeepCopyObject().(client.Object)}
	var stored client.Object
	err := c.do(call, func() error {
		st, err := c.S.create(kind, obj)
		if err != nil {
			return err
		}
		call.Post = st
		call.Name = st.GetName()
		stored = st
		return nil
	})
	if err == nil && stored != nil {
		setInto(obj, stored)
	}
	return err
}

// Update implements client.Writer.
func (c *Client) Update(_ context.Context, obj client.Object, _ ...client.UpdateOption) error {
	return c.update(obj, false)
}

func (c *Client) update(obj client.Object, sub bool) error {
	kind := c.S.KindOf(obj)
	verb := "update"
	if sub {
		verb = "status-update"
	}
	call := &Call{Verb: verb, Kind: kind, NS: obj.GetNamespace(), Name: obj.GetName(), Submitted: obj.DeepCopyObject().(client.Object)}
	var stored client.Object
	err := c.do(call, func() error {
		old, st, err := c.S.update(kind, obj, sub)
		call.Pre = old
		if err != nil {
			return err
		}
		call.Post = st
		stored = st
		return nil
	})
	if err == nil && stored != nil {
		setInto(obj, stored)
	}
	return err
}

// Patch implements client.Writer (merge patches only, which is all the repository uses).
func (c *Client) Patch(_ context.Context, obj client.Object, patch client.Patch, _ ...client.PatchOption) error {
	return c.patch(obj, patch, false)
}

func (c *Client) patch(obj client.Object, patch client.Patch, sub bool) error {
	kind := c.S.KindOf(obj)
	verb := "patch"
	if sub {
		// recorded as a status write like Status().Update (the monitors judge what was submitted);
		// PatchData tells the two apart
		verb = "status-update"
	}
	call := &Call{Verb: verb, Kind: kind, NS: obj.GetNamespace(), Name: obj.GetName(), Submitted: obj.DeepCopyObject().(client.Object)}
	if patch.Type() != types.MergePatchType {
		return fmt.Errorf("simapi: unsupported patch type %s", patch.Type())
	}
	data, err := patch.Data(obj)
	if err != nil {
		return err
	}
	call.PatchData = data
	var stored client.Object
	err = c.do(call, func() error {
		old, st, err := c.S.patchMerge(kind, obj, data, sub)
		call.Pre = old
		if err != nil {
			return err
		}
		call.Post = st
		stored = st
		return nil
	})
	if err == nil && stored != nil {
		setInto(obj, stored)
	}
	return err
}

// Delete implements client.Writer.
func (c *Client) Delete(_ context.Context, obj client.Object, _ ...client.DeleteOption) error {
	kind := c.S.KindOf(obj)
	call := &Call{Verb: "delete", Kind: kind, NS: obj.GetNamespace(), Name: obj.GetName(), Submitted: obj.DeepCopyObject().(client.Object)}
	return c.do(call, func() error {
		old, st, err := c.S.delete(kind, obj)
		call.Pre = old
		if err != nil {
			return err
		}
		call.Post = st
		return nil
	})
}

// DeleteAllOf is not used by the repository.
func (c *Client) DeleteAllOf(context.Context, client.Object, ...client.DeleteAllOfOption) error {
	return fmt.Errorf("simapi: DeleteAllOf not supported")
}

type statusWriter struct{ c *Client }

func (w statusWriter) Create(context.Context, client.Object, client.Object, ...client.SubResourceCreateOption) error {
	return fmt.Errorf("simapi: subresource create not supported")
}
func (w statusWriter) Update(_ context.Context, obj client.Object, _ ...client.SubResourceUpdateOption) error {
	return w.c.update(obj, true)
}
func (w statusWriter) Patch(_ context.Context, obj client.Object, patch client.Patch, _ ...client.SubResourcePatchOption) error {
	return w.c.patch(obj, patch, true)
}
func (w statusWriter) Get(context.Context, client.Object, client.Object, ...client.SubResourceGetOption) error {
	return fmt.Errorf("simapi: subresource get not supported")
}

// Status implements client.StatusClient.
func (c *Client) Status() client.SubResourceWriter { return statusWriter{c} }

// SubResource implements client.SubResourceClientConstructor.
func (c *Client) SubResource(string) client.SubResourceClient { return statusWriter{c} }

// Scheme implements client.Client.
func (c *Client) Scheme() *k8sruntime.Scheme { return c.S.Scheme }

// RESTMapper implements client.Client.
func (c *Client) RESTMapper() meta.RESTMapper { return nil }

// GroupVersionKindFor implements client.Client.
func (c *Client) GroupVersionKindFor(obj k8sruntime.Object) (schema.GroupVersionKind, error) {
	gvks, _, err := c.S.Scheme.ObjectKinds(obj)
	if err != nil || len(gvks) == 0 {
		return schema.GroupVersionKind{}, fmt.Errorf("unknown kind for %T", obj)
	}
	return gvks[0], nil
}

// IsObjectNamespaced implements client.Client.
func (c *Client) IsObjectNamespaced(obj k8sruntime.Object) (bool, error) {
	return !clusterScoped[c.S.KindOf(obj)], nil
}

// IsInjected reports whether err stems from the fault injector.
func IsInjected(err error) bool { return errors.Is(err, ErrInjected) }

// IsNotFound is a convenience re-export.
func IsNotFound(err error) bool { return apierrors.IsNotFound(err) }
