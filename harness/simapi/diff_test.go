package simapi_test

// Differential self-test of the API-server double: seeded operation sequences are applied to a
// simapi client and to controller-runtime's fake client (the double the repository's own tests
// use); after every operation the error class and the whole stored state must agree. Run by
// lib/selftest.sh; it guards the harness, it decides no property.

import (
	"context"
	"encoding/json"
	"fmt"
	"math/rand"
	"sort"
	"testing"

	corev1 "k8s.io/api/core/v1"
	apierrors "k8s.io/apimachinery/pkg/api/errors"
	metav1 "k8s.io/apimachinery/pkg/apis/meta/v1"
	"k8s.io/apimachinery/pkg/labels"
	"k8s.io/apimachinery/pkg/types"
	"sigs.k8s.io/controller-runtime/pkg/client"
	"sigs.k8s.io/controller-runtime/pkg/client/fake"

	v1 "github.com/DataDog/extendeddaemonset/api/v1alpha1"

	"vh/simapi"
)

func errClass(err error) string {
	switch {
	case err == nil:
		return "ok"
	case apierrors.IsNotFound(err):
		return "NotFound"
	case apierrors.IsAlreadyExists(err):
		return "AlreadyExists"
	case apierrors.IsConflict(err):
		return "Conflict"
	case apierrors.IsInvalid(err):
		return "Invalid"
	case apierrors.IsBadRequest(err):
		return "BadRequest"
	}
	return "other:" + err.Error()
}

// canon renders an object without the fields the two doubles legitimately fill differently.
func canon(o client.Object) string {
	c := o.DeepCopyObject().(client.Object)
	c.SetResourceVersion("")
	c.SetUID("")
	c.SetCreationTimestamp(metav1.Time{})
	c.SetManagedFields(nil)
	c.SetGeneration(0)
	if c.GetDeletionTimestamp() != nil {
		t := metav1.Unix(1, 0)
		c.SetDeletionTimestamp(&t)
	}
	c.SetDeletionGracePeriodSeconds(nil)
	// known difference: like a real API server simapi gives a created pod the phase Pending
	if p, ok := c.(*corev1.Pod); ok && p.Status.Phase == "" {
		p.Status.Phase = corev1.PodPending
	}
	c.GetObjectKind().SetGroupVersionKind(o.GetObjectKind().GroupVersionKind())
	b, _ := json.Marshal(c)
	var m map[string]any
	_ = json.Unmarshal(b, &m)
	delete(m, "kind")
	delete(m, "apiVersion")
	b, _ = json.Marshal(m)
	return string(b)
}

func dump(t *testing.T, c client.Client) []string {
	var out []string
	pl := &corev1.PodList{}
	if err := c.List(context.TODO(), pl); err != nil {
		t.Fatal(err)
	}
	for i := range pl.Items {
		out = append(out, "Pod "+canon(&pl.Items[i]))
	}
	el := &v1.ExtendedDaemonSetList{}
	if err := c.List(context.TODO(), el); err != nil {
		t.Fatal(err)
	}
	for i := range el.Items {
		out = append(out, "EDS "+canon(&el.Items[i]))
	}
	rl := &v1.ExtendedDaemonSetReplicaSetList{}
	if err := c.List(context.TODO(), rl); err != nil {
		t.Fatal(err)
	}
	for i := range rl.Items {
		out = append(out, "ERS "+canon(&rl.Items[i]))
	}
	sort.Strings(out)
	return out
}

func newObj(kind string) client.Object {
	switch kind {
	case "Pod":
		return &corev1.Pod{}
	case "EDS":
		return &v1.ExtendedDaemonSet{}
	}
	return &v1.ExtendedDaemonSetReplicaSet{}
}

func setSpecAndStatus(o client.Object, r *rand.Rand) {
	switch x := o.(type) {
	case *corev1.Pod:
		x.Spec.NodeName = fmt.Sprintf("n%d", r.Intn(3))
		x.Spec.Containers = []corev1.Container{{Name: "main", Image: fmt.Sprintf("img:%d", r.Intn(3))}}
		x.Status.Phase = []corev1.PodPhase{corev1.PodPending, corev1.PodRunning, corev1.PodFailed}[r.Intn(3)]
	case *v1.ExtendedDaemonSet:
		x.Spec.Template.Spec.Containers = []corev1.Container{{Name: "main", Image: fmt.Sprintf("img:%d", r.Intn(3))}}
		x.Status.Desired = int32(r.Intn(5))
		x.Status.ActiveReplicaSet = fmt.Sprintf("rs%d", r.Intn(3))
	case *v1.ExtendedDaemonSetReplicaSet:
		x.Spec.TemplateGeneration = fmt.Sprintf("h%d", r.Intn(3))
		x.Status.Desired = int32(r.Intn(5))
		x.Status.Status = []string{"active", "canary", ""}[r.Intn(3)]
	}
}

func minus(a, b []string) []string {
	in := map[string]bool{}
	for _, x := range b {
		in[x] = true
	}
	var out []string
	for _, x := range a {
		if !in[x] {
			out = append(out, x)
		}
	}
	return out
}

func clearStatus(o client.Object) {
	switch x := o.(type) {
	case *corev1.Pod:
		x.Status = corev1.PodStatus{}
	case *v1.ExtendedDaemonSet:
		x.Status = v1.ExtendedDaemonSetStatus{}
	case *v1.ExtendedDaemonSetReplicaSet:
		x.Status = v1.ExtendedDaemonSetReplicaSetStatus{}
	}
}

func TestDifferentialAgainstFakeClient(t *testing.T) {
	for seed := int64(1); seed <= 300; seed++ {
		r := rand.New(rand.NewSource(seed))
		store := simapi.NewStore()
		sim := store.NewClient("test", false)
		fk := fake.NewClientBuilder().WithScheme(store.Scheme).
			WithStatusSubresource(&corev1.Pod{}, &v1.ExtendedDaemonSet{}, &v1.ExtendedDaemonSetReplicaSet{}).Build()
		both := []client.Client{sim, fk}
		kinds := []string{"Pod", "EDS", "ERS"}
		var history []string
		for step := 0; step < 40; step++ {
			kind := kinds[r.Intn(3)]
			ns := []string{"ns1", "ns2"}[r.Intn(2)]
			name := fmt.Sprintf("o%d", r.Intn(3))
			op := r.Intn(11)
			if op == 9 && kind == "Pod" {
				// known difference: simapi deletes pods gracefully (deletionTimestamp, removed by its kubelet)
				kind = "ERS"
			}
			seedOp := r.Int63()
			var classes [2]string
			var extra [2]string
			for i, c := range both {
				rr := rand.New(rand.NewSource(seedOp))
				ctx := context.TODO()
				key := types.NamespacedName{Namespace: ns, Name: name}
				var err error
				switch op {
				case 0, 1: // create
					o := newObj(kind)
					o.SetNamespace(ns)
					o.SetName(name)
					o.SetLabels(map[string]string{"app": fmt.Sprintf("a%d", rr.Intn(2))})
					if rr.Intn(4) == 0 {
						o.SetFinalizers([]string{"example.com/hold"})
					}
					setSpecAndStatus(o, rr)
					// known difference: like a real API server simapi drops the status of a created object whose
					// kind has a status subresource, the fake client stores it; create without a status
					clearStatus(o)
					err = c.Create(ctx, o)
				case 2: // get
					o := newObj(kind)
					err = c.Get(ctx, key, o)
					if err == nil {
						extra[i] = canon(o)
					}
				case 3: // update with the current version: spec and labels change, the status part must be ignored
					o := newObj(kind)
					if err = c.Get(ctx, key, o); err == nil {
						setSpecAndStatus(o, rr)
						o.SetLabels(map[string]string{"app": fmt.Sprintf("a%d", rr.Intn(2)), "extra": "x"})
						if rr.Intn(3) == 0 {
							o.SetFinalizers(nil)
						}
						err = c.Update(ctx, o)
						if err == nil {
							extra[i] = canon(o)
						}
					}
				case 4: // update with a stale resource version
					o := newObj(kind)
					if err = c.Get(ctx, key, o); err == nil {
						stale := o.DeepCopyObject().(client.Object)
						o.SetAnnotations(map[string]string{"touch": fmt.Sprint(rr.Intn(100))})
						if err = c.Update(ctx, o); err == nil {
							stale.SetLabels(map[string]string{"stale": "write"})
							err = c.Update(ctx, stale)
						}
					}
				case 5: // update of an object that does not exist
					// (an update without resourceVersion of an existing object is not compared: simapi applies it
					// unconditionally, the fake client and a real API server refuse it for custom resources; the
					// repository always updates what it has just read)
					o := newObj(kind)
					if c.Get(ctx, key, o) == nil {
						break
					}
					o.SetNamespace(ns)
					o.SetName(name)
					setSpecAndStatus(o, rr)
					err = c.Update(ctx, o)
				case 6: // status update: only the status may change
					o := newObj(kind)
					if err = c.Get(ctx, key, o); err == nil {
						setSpecAndStatus(o, rr)
						o.SetLabels(map[string]string{"ignored": "by-status-update"})
						err = c.Status().Update(ctx, o)
						if err == nil {
							extra[i] = canon(o)
						}
					}
				case 7: // merge patch of labels
					o := newObj(kind)
					if err = c.Get(ctx, key, o); err == nil {
						base := o.DeepCopyObject().(client.Object)
						l := o.GetLabels()
						if l == nil {
							l = map[string]string{}
						}
						l["patched"] = fmt.Sprint(rr.Intn(3))
						delete(l, "extra")
						o.SetLabels(l)
						if rr.Intn(3) == 0 {
							o.SetFinalizers(nil)
						}
						err = c.Patch(ctx, o, client.MergeFrom(base))
					}
				case 8: // status merge patch
					o := newObj(kind)
					if err = c.Get(ctx, key, o); err == nil {
						base := o.DeepCopyObject().(client.Object)
						setSpecAndStatus(o, rr)
						err = c.Status().Patch(ctx, o, client.MergeFrom(base))
					}
				case 9: // delete
					o := newObj(kind)
					o.SetNamespace(ns)
					o.SetName(name)
					err = c.Delete(ctx, o)
				case 10: // list with namespace and label selector
					sel := labels.SelectorFromSet(labels.Set{"app": fmt.Sprintf("a%d", rr.Intn(2))})
					var names []string
					switch kind {
					case "Pod":
						l := &corev1.PodList{}
						err = c.List(ctx, l, client.InNamespace(ns), client.MatchingLabelsSelector{Selector: sel})
						for _, x := range l.Items {
							names = append(names, x.Name)
						}
					case "EDS":
						l := &v1.ExtendedDaemonSetList{}
						err = c.List(ctx, l, client.InNamespace(ns), client.MatchingLabelsSelector{Selector: sel})
						for _, x := range l.Items {
							names = append(names, x.Name)
						}
					default:
						l := &v1.ExtendedDaemonSetReplicaSetList{}
						err = c.List(ctx, l, client.InNamespace(ns), client.MatchingLabelsSelector{Selector: sel})
						for _, x := range l.Items {
							names = append(names, x.Name)
						}
					}
					sort.Strings(names)
					extra[i] = fmt.Sprint(names)
				}
				classes[i] = errClass(err)
			}
			history = append(history, fmt.Sprintf("op%d %s %s/%s -> sim=%s fake=%s", op, kind, ns, name, classes[0], classes[1]))
			if classes[0] != classes[1] {
				t.Fatalf("seed %d step %d: error classes differ\n%v", seed, step, history)
			}
			if extra[0] != extra[1] {
				t.Fatalf("seed %d step %d: returned objects differ\nsim:  %s\nfake: %s\n%v", seed, step, extra[0], extra[1], history)
			}
			a, b := dump(t, sim), dump(t, fk)
			if fmt.Sprint(a) != fmt.Sprint(b) {
				t.Fatalf("seed %d step %d: stores differ\nonly sim:  %v\nonly fake: %v\nlast: %v", seed, step, minus(a, b), minus(b, a), history[len(history)-1])
			}
		}
	}
}
