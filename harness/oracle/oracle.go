// Package oracle holds the independent reference predicates (DESIGN.md section 3). They
// import only API types and Kubernetes helper types, never the repository's logic, and never
// read the template-hash annotations.
package oracle

import (
	"sort"
	"strconv"

	"strings"

	corev1 "k8s.io/api/core/v1"

	v1 "github.com/DataDog/extendeddaemonset/api/v1alpha1"
)

// ---- eligibility ---------------------------------------------------------------------------

// StandardTolerations are the six default DaemonSet tolerations (Kubernetes documentation).
var StandardTolerations = []corev1.Toleration{
	{Key: "node.kubernetes.io/not-ready", Operator: corev1.TolerationOpExists, Effect: corev1.TaintEffectNoExecute},
	{Key: "node.kubernetes.io/unreachable", Operator: corev1.TolerationOpExists, Effect: corev1.TaintEffectNoExecute},
	{Key: "node.kubernetes.io/disk-pressure", Operator: corev1.TolerationOpExists, Effect: corev1.TaintEffectNoSchedule},
	{Key: "node.kubernetes.io/memory-pressure", Operator: corev1.TolerationOpExists, Effect: corev1.TaintEffectNoSchedule},
	{Key: "node.kubernetes.io/unschedulable", Operator: corev1.TolerationOpExists, Effect: corev1.TaintEffectNoSchedule},
	{Key: "node.kubernetes.io/network-unavailable", Operator: corev1.TolerationOpExists, Effect: corev1.TaintEffectNoSchedule},
}

func tolerates(t corev1.Toleration, taint corev1.Taint) bool {
	if t.Effect != "" && t.Effect != taint.Effect {
		return false
	}
	if t.Key != "" && t.Key != taint.Key {
		return false
	}
	switch t.Operator {
	case corev1.TolerationOpExists:
		return true
	case "", corev1.TolerationOpEqual:
		if t.Key == "" { // empty key requires Exists
			return false
		}
		return t.Value == taint.Value
	}
	return false
}

func matchExpr(req corev1.NodeSelectorRequirement, lbls map[string]string) bool {
	val, has := lbls[req.Key]
	switch req.Operator {
	case corev1.NodeSelectorOpIn:
		if !has {
			return false
		}
		for _, v := range req.Values {
			if v == val {
				return true
			}
		}
		return false
	case corev1.NodeSelectorOpNotIn:
		if !has {
			return true
		}
		for _, v := range req.Values {
			if v == val {
				return false
			}
		}
		return true
	case corev1.NodeSelectorOpExists:
		return has
	case corev1.NodeSelectorOpDoesNotExist:
		return !has
	case corev1.NodeSelectorOpGt, corev1.NodeSelectorOpLt:
		if !has || len(req.Values) != 1 {
			return false
		}
		a, err1 := strconv.ParseInt(val, 10, 64)
		b, err2 := strconv.ParseInt(req.Values[0], 10, 64)
		if err1 != nil || err2 != nil {
			return false
		}
		if req.Operator == corev1.NodeSelectorOpGt {
			return a > b
		}
		return a < b
	}
	return false
}

func matchField(req corev1.NodeSelectorRequirement, nodeName string) bool {
	if req.Key != "metadata.name" || len(req.Values) != 1 {
		return false
	}
	switch req.Operator {
	case corev1.NodeSelectorOpIn:
		return req.Values[0] == nodeName
	case corev1.NodeSelectorOpNotIn:
		return req.Values[0] != nodeName
	}
	return false
}

// Eligible: node selector subset of labels; required node affinity (terms OR-ed, expressions
// AND-ed, empty term matches nothing, nil required => match); every NoSchedule/NoExecute
// taint tolerated by template tolerations plus the six standard DaemonSet tolerations.
func Eligible(node *corev1.Node, tpl *corev1.PodSpec) bool {
	for k, v := range tpl.NodeSelector {
		// the label has to be present: an absent label does not satisfy an entry with an empty value
		if lv, has := node.Labels[k]; !has || lv != v {
			return false
		}
	}
	if a := tpl.Affinity; a != nil && a.NodeAffinity != nil && a.NodeAffinity.RequiredDuringSchedulingIgnoredDuringExecution != nil {
		ok := false
		for _, term := range a.NodeAffinity.RequiredDuringSchedulingIgnoredDuringExecution.NodeSelectorTerms {
			if len(term.MatchExpressions) == 0 && len(term.MatchFields) == 0 {
				continue
			}
			all := true
			for _, e := range term.MatchExpressions {
				if !matchExpr(e, node.Labels) {
					all = false
				}
			}
			for _, f := range term.MatchFields {
				if !matchField(f, node.Name) {
					all = false
				}
			}
			if all {
				ok = true
				break
			}
		}
		if !ok {
			return false
		}
	}
	tols := append(append([]corev1.Toleration{}, tpl.Tolerations...), StandardTolerations...)
	for _, taint := range node.Spec.Taints {
		if taint.Effect != corev1.TaintEffectNoSchedule && taint.Effect != corev1.TaintEffectNoExecute {
			continue
		}
		tolerated := false
		for _, t := range tols {
			if tolerates(t, taint) {
				tolerated = true
				break
			}
		}
		if !tolerated {
			return false
		}
	}
	return true
}

// Representative orders pods: scheduled before unscheduled, then oldest, then name; returns
// the sorted copy (index 0 is the one to keep).
func Representative(pods []*corev1.Pod) []*corev1.Pod {
	out := append([]*corev1.Pod{}, pods...)
	sort.SliceStable(out, func(i, j int) bool {
		si, sj := out[i].Spec.NodeName != "", out[j].Spec.NodeName != ""
		if si != sj {
			return si
		}
		ti, tj := out[i].CreationTimestamp.Time, out[j].CreationTimestamp.Time
		if !ti.Equal(tj) {
			return ti.Before(tj)
		}
		return out[i].Name < out[j].Name
	})
	return out
}

// ---- EDS status function (C14) ---------------------------------------------------------------

const (
	annPaused       = "extendeddaemonset.datadoghq.com/canary-paused"
	annPausedReason = "extendeddaemonset.datadoghq.com/canary-paused-reason"
	annRUPaused     = "extendeddaemonset.datadoghq.com/rolling-update-paused"
	annFrozen       = "extendeddaemonset.datadoghq.com/rollout-frozen"
)

// RSCond reports whether a replica-set condition is true.
func RSCond(rs *v1.ExtendedDaemonSetReplicaSet, t v1.ExtendedDaemonSetReplicaSetConditionType) bool {
	if rs == nil {
		return false
	}
	for _, c := range rs.Status.Conditions {
		if c.Type == t {
			return c.Status == corev1.ConditionTrue
		}
	}
	return false
}

// NonCanaryState: freeze over pause over running.
func NonCanaryState(ann map[string]string) v1.ExtendedDaemonSetStatusState {
	if ann[annFrozen] == "true" {
		return v1.ExtendedDaemonSetStatusStateRolloutFrozen
	}
	if ann[annRUPaused] == "true" {
		return v1.ExtendedDaemonSetStatusStateRollingUpdatePaused
	}
	return v1.ExtendedDaemonSetStatusStateRunning
}

// ExpectedStatus is what the documented status function yields.
type ExpectedStatus struct {
	Current, Ready, Available, Desired, UpToDate, Ignored int32
	State                                                 v1.ExtendedDaemonSetStatusState
	CanarySet                                             bool
	CanaryRS                                              string
	CondFailed, CondPaused                                bool
	JudgeConds                                            bool
	// Reason: the paused reason while the state is Canary Paused, empty otherwise
	Reason string
}

// ExpectedEDSStatus computes the documented function of the replica-set statuses *as read*:
// eds is the EDS as read, rss its replica sets as read, active the replica set that is
// active after the reconcile (the promotion decision itself is C05's business), upToDate the
// one matching spec.template.
func ExpectedEDSStatus(eds *v1.ExtendedDaemonSet, rss []*v1.ExtendedDaemonSetReplicaSet, active, upToDate *v1.ExtendedDaemonSetReplicaSet) ExpectedStatus {
	var e ExpectedStatus
	for _, rs := range rss {
		e.Current += rs.Status.Current
		e.Ready += rs.Status.Ready
		e.Available += rs.Status.Available
	}
	ann := eds.Annotations
	if active != nil {
		e.Desired = active.Status.Desired
		e.UpToDate = active.Status.Current
		e.Ignored = active.Status.IgnoredUnresponsiveNodes
	}
	e.State = NonCanaryState(ann)
	if eds.Spec.Strategy.Canary != nil && upToDate != nil {
		e.JudgeConds = true
		failed := RSCond(upToDate, v1.ConditionTypeCanaryFailed)
		paused := RSCond(upToDate, v1.ConditionTypeCanaryPaused) || ann[annPaused] == "true"
		canaryActive := !failed && active != nil && active.Name != upToDate.Name
		e.CondFailed = failed
		e.CondPaused = paused && !failed
		switch {
		case failed:
			e.State = v1.ExtendedDaemonSetStatusStateCanaryFailed
		case canaryActive:
			e.CanarySet = true
			e.CanaryRS = upToDate.Name
			e.Desired += upToDate.Status.Desired
			e.UpToDate = upToDate.Status.Current
			e.Ignored += upToDate.Status.IgnoredUnresponsiveNodes
			e.State = v1.ExtendedDaemonSetStatusStateCanary
			if paused {
				e.State = v1.ExtendedDaemonSetStatusStateCanaryPaused
				// reason: the replica set's own condition reason, else the reason annotation, else Unknown
				e.Reason = "Unknown"
				if r, ok := ann[annPausedReason]; ok && ann[annPaused] == "true" {
					e.Reason = r
				}
				for _, c := range upToDate.Status.Conditions {
					if c.Type == v1.ConditionTypeCanaryPaused && c.Status == corev1.ConditionTrue {
						e.Reason = c.Reason
					}
				}
			}
		}
	}
	return e
}

// EDSCond reports whether an EDS condition is true.
func EDSCond(st *v1.ExtendedDaemonSetStatus, t v1.ExtendedDaemonSetConditionType) bool {
	for _, c := range st.Conditions {
		if c.Type == t {
			return c.Status == corev1.ConditionTrue
		}
	}
	return false
}

// DiffStatus compares a written status with the expectation; returns the names of the
// fields that differ.
func DiffStatus(got *v1.ExtendedDaemonSetStatus, want ExpectedStatus) []string {
	var d []string
	if got.Current != want.Current || got.Ready != want.Ready || got.Available != want.Available {
		d = append(d, "sums")
	}
	if got.Desired != want.Desired {
		d = append(d, "desired")
	}
	if got.UpToDate != want.UpToDate {
		d = append(d, "upToDate")
	}
	if got.IgnoredUnresponsiveNodes != want.Ignored {
		d = append(d, "ignoredUnresponsiveNodes")
	}
	if got.State != want.State {
		d = append(d, "state")
	} else if string(got.Reason) != want.Reason {
		d = append(d, "reason")
	}
	if (got.Canary != nil) != want.CanarySet {
		d = append(d, "canary-nilness")
	} else if got.Canary != nil && got.Canary.ReplicaSet != want.CanaryRS {
		d = append(d, "canary-replicaset")
	}
	if want.JudgeConds {
		if EDSCond(got, v1.ConditionTypeEDSCanaryFailed) != want.CondFailed {
			d = append(d, "cond-canary-failed")
		}
		if EDSCond(got, v1.ConditionTypeEDSCanaryPaused) != want.CondPaused {
			d = append(d, "cond-canary-paused")
		}
		// a true Canary-Paused condition names the same cause and the same replica set as the rest of the status
		if got.State == v1.ExtendedDaemonSetStatusStateCanaryPaused && got.Canary != nil {
			for i := range got.Conditions {
				c := &got.Conditions[i]
				if c.Type != v1.ConditionTypeEDSCanaryPaused || c.Status != corev1.ConditionTrue {
					continue
				}
				if c.Reason != string(got.Reason) {
					d = append(d, "cond-canary-paused-reason")
				}
				if !strings.Contains(c.Message, got.Canary.ReplicaSet) {
					d = append(d, "cond-canary-paused-message")
				}
				break
			}
		}
	}
	return d
}
