//go:build verif

package fuzz

import (
	"encoding/json"
	"testing"

	"vh/fn"
)

// FuzzC16 is run by the fn.c16-fuzz engine (thorough tier of check C16) with Go's native
// coverage-guided fuzzing; the coverage instrumentation spans the repository's packages, so
// mutation is steered towards new branches of defaulting, validation and the reconcilers.
func FuzzC16(f *testing.F) {
	f.Add([]byte{})
	f.Add([]byte{0x02, 0, 0, 0, 0, 0, 0, 1})
	f.Add([]byte{0x0e, 2, 1, 0, 0, 0, 4, 50, 7, 1, 6, 2, 5, 3, 2, 6, 5, 2, 1, 6, 10, 1, 5, 3, 6, 30})
	f.Add([]byte{0x4e, 4, 200, 6, 3, 1, 5, 0, 2, 3, 0, 2, 2, 2, 0, 2, 7, 2, 4, 2, 2, 2, 3, 2})
	f.Add([]byte{0x3f, 7, 1, 7, 0, 7, 2, 3, 255, 4, 3, 255, 1, 3, 5, 7, 1, 1, 5, 2, 6, 20, 0, 1, 5, 4, 6, 3})
	f.Fuzz(func(t *testing.T, data []byte) {
		if len(data) > 96 {
			return
		}
		if vs := fn.C16JudgeBytes(data); len(vs) > 0 {
			b, _ := json.Marshal(vs[0])
			t.Fatalf("C16VIOLATION %s", b)
		}
	})
}
