package sim

import (
	"fmt"
	"k8s.io/apimachinery/pkg/api/resource"
	"math/rand"
	"runtime"
	"sort"
	"strings"
	"sync"
	"time"

	"github.com/go-logr/logr"
	corev1 "k8s.io/api/core/v1"
	metav1 "k8s.io/apimachinery/pkg/apis/meta/v1"
	"sigs.k8s.io/controller-runtime/pkg/client"

	v1 "github.com/DataDog/extendeddaemonset/api/v1alpha1"
	ersctl "github.com/DataDog/extendeddaemonset/controllers/extendeddaemonsetreplicaset"
	"github.com/DataDog/extendeddaemonset/controllers/extendeddaemonsetreplicaset/strategy"

	"vh/core"
	"vh/kit"
	"vh/simapi"
)

// C17 is the race engine. It is meant to run inside the -race build with
// GORACE=halt_on_error=0 log_path=...; the parent counts report blocks. Independently of the
// race detector it checks conservation of errors over parallel pod operations and the
// reflection of failures in the replica-set conditions.
type C17 struct{}

func (e *C17) Name() string { return "race.c17" }
func (e *C17) Rule() string {
	return "helper level: batches of 2..64 parallel pod creations / update deletions / clean-up deletions x failure plan {none, one, random half, all} with unique error ids, random Gosched/microsecond jitter at the client seam, conservation = returned error ids equal injected ids; sync level: one real replica-set Reconcile over nodes lacking pods, outdated pods and clean-up pods with injected pod-call failures, conditions judged; system level: the four reconcilers, a kubelet and a user run concurrently on one store (0%/10%/100% failing pod calls); race reports of the Go race detector are de-duplicated by entry-point pair; non-trivial = distinct (operation, batch size, failure plan) tuples with at least one injected failure"
}
func (e *C17) Cases(tier string, _ int64) int {
	if tier == "thorough" {
		return 8000
	}
	return 800
}
func (e *C17) Floors(string) map[string]int {
	return map[string]int{"C17.batches": 250, "C17.batches-with-failures": 150, "C17.sync-level-judged": 40, "C17.system-runs": 10, "C17.injected-errors": 2000}
}

// tplTol is kit.Tpl with, in two cases out of three, tolerations of the template's own: one unrelated to the
// default DaemonSet tolerations, or one equal to a default one (the pod builder merges the defaults
// into the template's list inside every goroutine of a fan-out).
func tplTol(marker string, k int) corev1.PodTemplateSpec {
	t := kit.Tpl(marker)
	switch k % 3 {
	case 1:
		t.Spec.Tolerations = []corev1.Toleration{{Key: "dedicated", Operator: corev1.TolerationOpEqual, Value: "infra", Effect: corev1.TaintEffectNoSchedule}}
	case 2:
		t.Spec.Tolerations = []corev1.Toleration{{Key: "node.kubernetes.io/unschedulable", Operator: corev1.TolerationOpExists, Effect: corev1.TaintEffectNoSchedule}, {Key: "dedicated", Operator: corev1.TolerationOpExists}}
		// and a required node affinity every node satisfies (all generated nodes carry a zone label, batch nodes
		// do not need one: the second term matches by name), so that the affinity predicates run in every sync
		t.Spec.Affinity = &corev1.Affinity{NodeAffinity: &corev1.NodeAffinity{RequiredDuringSchedulingIgnoredDuringExecution: &corev1.NodeSelector{NodeSelectorTerms: []corev1.NodeSelectorTerm{
			{MatchExpressions: []corev1.NodeSelectorRequirement{{Key: "zone", Operator: corev1.NodeSelectorOpExists}}},
			{MatchFields: []corev1.NodeSelectorRequirement{{Key: "metadata.name", Operator: corev1.NodeSelectorOpNotIn, Values: []string{"no-such-node"}}}},
		}}}}
	}
	return t
}

func jitterHook(r *rand.Rand) func(string, *simapi.Call) {
	var mu sync.Mutex
	return func(phase string, c *simapi.Call) {
		mu.Lock()
		k := r.Intn(6)
		mu.Unlock()
		switch k {
		case 0:
			runtime.Gosched()
		case 1:
			time.Sleep(time.Microsecond * time.Duration(1+k))
		}
	}
}

func (e *C17) Run(ctx *core.Ctx, idx int) {
	switch idx % 8 {
	case 0, 1, 2, 3:
		e.batch(ctx, idx)
	case 4, 5:
		e.syncLevel(ctx)
	case 6, 7:
		e.system(ctx)
	}
}

type failPlan struct {
	name string
	fail func(i, n int, r *rand.Rand) bool
}

var failPlans = []failPlan{
	{"none", func(i, n int, r *rand.Rand) bool { return false }},
	{"one", func(i, n int, r *rand.Rand) bool { return i == n/2 }},
	{"half", func(i, n int, r *rand.Rand) bool { return r.Intn(2) == 0 }},
	{"all", func(i, n int, r *rand.Rand) bool { return true }},
}

// batch: one helper call with a failure plan; conservation of error ids.
func (e *C17) batch(ctx *core.Ctx, idx int) {
	r := ctx.Rand
	sizes := []int{2, 3, 5, 8, 16, 33, 64}
	n := sizes[r.Intn(len(sizes))]
	plan := failPlans[r.Intn(len(failPlans))]
	op := []string{"createPods", "deletePods", "deletePodSlice"}[r.Intn(3)]
	simapi.SetNow(kit.T0)
	s := simapi.NewStore()
	c := s.NewClient("ers-controller", true)
	c.Hook = jitterHook(rand.New(rand.NewSource(r.Int63())))
	eds := kit.NewEDS("ns", "foo", "A", nil)
	eds.UID = "uid-eds"
	rs := kit.NewRS(s, eds, "foo-a", tplTol("A", idx), kit.T0)
	rs.UID = "uid-rs"
	failNode := map[string]bool{}
	nilScheme := op == "createPods" && r.Intn(3) == 0
	genFail := 0
	var nodes []*strategy.NodeItem
	podByNode := map[*strategy.NodeItem]*corev1.Pod{}
	var pods []*corev1.Pod
	for i := 0; i < n; i++ {
		name := fmt.Sprintf("n%d", i)
		// a third of the nodes are selected by a valid setting, a sixth carry an override annotation:
		// creation then also writes per-node resources and setting labels (shared-template hazards)
		var setting *v1.ExtendedDaemonsetSetting
		node := kit.Node(name, nil)
		switch i % 6 {
		case 1, 4:
			setting = &v1.ExtendedDaemonsetSetting{ObjectMeta: metav1.ObjectMeta{Namespace: "ns", Name: fmt.Sprintf("set-%d", i%2)}}
			setting.Spec.Containers = []v1.ExtendedDaemonsetSettingContainerSpec{{Name: "main", Resources: corev1.ResourceRequirements{Requests: corev1.ResourceList{corev1.ResourceCPU: resource.MustParse(fmt.Sprintf("%dm", 100+i))}}}}
			setting.Status.Status = v1.ExtendedDaemonsetSettingStatusValid
		case 2:
			node.Annotations = map[string]string{fmt.Sprintf(v1.ExtendedDaemonSetRessourceNodeAnnotationKey, "ns", "foo", "main"): fmt.Sprintf(`{"requests":{"cpu":"%dm"}}`, 200+i)}
		case 5:
			if nilScheme {
				// pod generation itself fails for this node (malformed override; reported when no scheme
				// is given): one more error per node, on top of a failing Create
				node.Annotations = map[string]string{fmt.Sprintf(v1.ExtendedDaemonSetRessourceNodeAnnotationKey, "ns", "foo", "main"): `{"requests": nope`}
				genFail++
			}
		}
		ni := strategy.NewNodeItem(node, setting)
		nodes = append(nodes, ni)
		if plan.fail(i, n, r) {
			failNode[name] = true
		}
		if op != "createPods" {
			p := &corev1.Pod{ObjectMeta: metav1.ObjectMeta{Namespace: "ns", Name: "pod-" + name, Labels: map[string]string{v1.ExtendedDaemonSetNameLabelKey: "foo"}}, Spec: corev1.PodSpec{NodeName: name}}
			p.Status.Phase = corev1.PodRunning
			s.Inject(p)
			podByNode[ni] = p
			pods = append(pods, p)
			if op == "deletePodSlice" && i%3 == 0 {
				// the clean-up list is the one place where several pods of one node are deleted in parallel: a
				// second pod on the same node whose deletion always succeeds, next to one that may fail
				p2 := p.DeepCopy()
				p2.Name = "pod2-" + name
				s.Inject(p2)
				pods = append(pods, p2)
			}
		}
	}
	var mu sync.Mutex
	injected := map[string]bool{}
	s.Fault = func(call *simapi.Call) simapi.FaultKind {
		if call.Kind != simapi.KindPod || !call.IsWrite() {
			return simapi.NoFault
		}
		node := ""
		if call.Submitted != nil {
			node = kit.NodeOfPod(call.Submitted.(*corev1.Pod))
		}
		if failNode[node] && !(call.Verb == "delete" && strings.HasPrefix(call.Name, "pod2-")) {
			mu.Lock()
			injected[fmt.Sprintf("f-%d", call.Seq)] = true
			mu.Unlock()
			if call.Seq%2 == 0 {
				return simapi.Reject
			}
			return simapi.LostReply
		}
		return simapi.NoFault
	}
	var errs []error
	pan := ""
	affMode := r.Intn(2) == 0
	done := make(chan struct{})
	go func() {
		defer close(done)
		defer func() {
			if x := recover(); x != nil {
				pan = fmt.Sprint(x)
			}
		}()
		switch op {
		case "createPods":
			sch := s.Scheme
			if nilScheme {
				sch = nil
			}
			errs = ersctl.VerifCreatePods(logr.Discard(), c, sch, affMode, rs, nodes)
		case "deletePods":
			errs = ersctl.VerifDeletePods(logr.Discard(), c, podByNode, nodes)
		case "deletePodSlice":
			errs = strategy.VerifDeletePodSlice(c, logr.Discard(), pods)
		}
	}()
	ctx.Count("C17.batches")
	ctx.Count("evaluations")
	attrs := map[string]string{"op": op, "plan": plan.name}
	desc := map[string]any{"op": op, "batch": n, "plan": plan.name, "generation-failures": genFail}
	select {
	case <-done:
	case <-time.After(90 * time.Second):
		// a batch of at most 64 in-memory operations that has not returned after 90 s of wall clock is
		// blocked for good (the parallel helpers have no other way of waiting): its goroutines are left behind
		attrs["kind"] = "hang"
		ctx.Violation("C17", "C17.no-hang", attrs, desc)
		return
	}
	desc["injected"], desc["returned"] = len(injected), len(errs)
	if genFail > 0 {
		ctx.Count("C17.batches-with-generation-failures")
	}
	if pan != "" {
		attrs["panic"] = pan
		ctx.Violation("C17", "C17.no-panic", attrs, desc)
		return
	}
	if len(injected) > 0 {
		ctx.Count("C17.batches-with-failures")
		ctx.Add("C17.injected-errors", len(injected))
		if ctx.Distinct("nontrivial", fmt.Sprintf("%s|%d|%s", op, n, plan.name)) {
			ctx.Sample(desc)
		}
	}
	got := map[string]int{}
	for _, err := range errs {
		var ie *simapi.InjectedError
		if asInjected(err, &ie) {
			got[ie.ID]++
		} else {
			got["other:"+err.Error()]++
		}
	}
	lost, dup, alien := 0, 0, 0
	for id := range injected {
		switch got[id] {
		case 0:
			lost++
		case 1:
		default:
			dup++
		}
	}
	others := 0
	for id, k := range got {
		if !injected[id] {
			if strings.HasPrefix(id, "other:") {
				others += k
				continue
			}
			alien++
		}
	}
	// errors of pod generation (not injected at the client seam): exactly one per node whose
	// generation fails
	if others < genFail {
		lost += genFail - others
	} else if others > genFail {
		alien += others - genFail
	}
	if lost+dup+alien > 0 {
		desc["lost"], desc["duplicated"], desc["alien"] = lost, dup, alien
		attrs["kind"] = map[bool]string{true: "lost", false: "duplicated-or-alien"}[lost > 0]
		ctx.Violation("C17", "C17.error-conservation", attrs, desc)
	}
}

func asInjected(err error, out **simapi.InjectedError) bool {
	for err != nil {
		if ie, ok := err.(*simapi.InjectedError); ok {
			*out = ie
			return true
		}
		u, ok := err.(interface{ Unwrap() error })
		if !ok {
			return false
		}
		err = u.Unwrap()
	}
	return false
}

// syncLevel: one real replica-set Reconcile with failing pod calls; the conditions written
// with the status must reflect the failures.
func (e *C17) syncLevel(ctx *core.Ctx) {
	r := ctx.Rand
	// half of the syncs run with the virtual clock set to the wall clock: a deadline or timer that the sync
	// derives from "now" then relates to real time as it does in production (with the far-away virtual
	// epoch it would never fire)
	base := kit.T0
	if r.Intn(2) == 0 {
		base = time.Now().Truncate(time.Second)
		ctx.Count("C17.sync-level-on-wall-clock")
	}
	simapi.SetNow(base)
	defer simapi.SetNow(kit.T0)
	s := simapi.NewStore()
	ctl := kit.NewControllers(s, kit.CtlOpts{Affinity: r.Intn(2) == 0})
	ctl.CERS.Hook = jitterHook(rand.New(rand.NewSource(r.Int63())))
	eds := kit.NewEDS("ns", "foo", "B", nil)
	eds.UID = "uid-eds"
	eds.Spec.Strategy.RollingUpdate.MaxUnavailable = kit.PS("100%")
	eds.Spec.Strategy.RollingUpdate.SlowStartAdditiveIncrease = kit.IS(100)
	// the usual ten seconds, or legal extremes: whatever the frequency, a sync reports what failed
	eds.Spec.Strategy.ReconcileFrequency = &metav1.Duration{Duration: []time.Duration{10 * time.Second, 0, time.Millisecond, 48 * time.Hour}[r.Intn(4)]}
	rsB := kit.NewRS(s, eds, "foo-b", tplTol("B", r.Intn(3)), base.Add(-time.Hour))
	eds.Status.ActiveReplicaSet = "foo-b"
	n := 4 + r.Intn(12)
	// "mixed": outdated pods on half of the nodes, none on the others - the same sync deletes and creates
	mode := []string{"create", "update-delete", "cleanup", "mixed"}[r.Intn(4)]
	role := "active"
	if mode == "cleanup" && r.Intn(2) == 0 {
		// canary role: foo-b is the canary replica set of an (absent) active foo-a, on all nodes
		role = "canary"
		eds.Spec.Strategy.Canary = kit.NewEDS("ns", "x", "B", &v1.ExtendedDaemonSetSpecStrategyCanary{}).Spec.Strategy.Canary
		eds.Status.ActiveReplicaSet = "foo-a"
		eds.Status.Canary = &v1.ExtendedDaemonSetStatusCanary{ReplicaSet: "foo-b"}
		for i := 0; i < n; i++ {
			eds.Status.Canary.Nodes = append(eds.Status.Canary.Nodes, fmt.Sprintf("n%d", i))
		}
	}
	s.Inject(eds)
	stB := s.Inject(rsB)
	tr := true
	for i := 0; i < n; i++ {
		name := fmt.Sprintf("n%d", i)
		lbl := map[string]string{}
		s.Inject(kit.Node(name, lbl))
		mk := func(pname, marker, hash string) *corev1.Pod {
			p := &corev1.Pod{ObjectMeta: metav1.ObjectMeta{Namespace: "ns", Name: pname, Labels: map[string]string{v1.ExtendedDaemonSetNameLabelKey: "foo", v1.ExtendedDaemonSetReplicaSetNameLabelKey: "foo-b", kit.MarkerLabel: marker},
				Annotations:     map[string]string{v1.MD5ExtendedDaemonSetAnnotationKey: hash},
				OwnerReferences: []metav1.OwnerReference{{APIVersion: "datadoghq.com/v1alpha1", Kind: "ExtendedDaemonSetReplicaSet", Name: "foo-b", UID: stB.GetUID(), Controller: &tr}}},
				Spec: corev1.PodSpec{NodeName: name, Containers: []corev1.Container{{Name: "main", Image: "img:" + marker}}}}
			p.Status.Phase = corev1.PodRunning
			p.Status.Conditions = []corev1.PodCondition{kit.ReadyCond(true, base.Add(-time.Minute))}
			return p
		}
		switch mode {
		case "update-delete":
			s.Inject(mk("old-"+name, "A", "OLDHASH"))
		case "mixed":
			if i%2 == 0 {
				s.Inject(mk("old-"+name, "A", "OLDHASH"))
			}
		case "cleanup":
			s.Inject(mk("cur-"+name, "B", rsB.Spec.TemplateGeneration))
			s.Inject(mk("dup-"+name, "B", rsB.Spec.TemplateGeneration))
			if i%2 == 0 {
				// a third pod: two clean-up deletions on the same node in one sync
				s.Inject(mk("dup2-"+name, "B", rsB.Spec.TemplateGeneration))
			}
		}
	}
	failProb := []float64{0.3, 1}[r.Intn(2)]
	fr := rand.New(rand.NewSource(r.Int63()))
	nFailed := map[string]int{}
	s.Fault = func(call *simapi.Call) simapi.FaultKind {
		if call.Kind == simapi.KindPod && (call.Verb == "create" || call.Verb == "delete") && fr.Float64() < failProb {
			nFailed[call.Verb]++
			return simapi.Reject
		}
		return simapi.NoFault
	}
	// in a third of the syncs another actor removes one of the pods between the sync's listing and
	// its Delete (that Delete answers NotFound) while other calls of the same batch fail
	oneGone := mode != "create" && mode != "mixed" && r.Intn(3) == 0
	if oneGone {
		jit := ctl.CERS.Hook
		var once sync.Once
		ctl.CERS.Hook = func(phase string, call *simapi.Call) {
			if phase == "pre" && call.Verb == "delete" && call.Kind == simapi.KindPod {
				once.Do(func() {
					s.Remove(simapi.KindPod, call.NS, call.Name)
					ctx.Count("C17.sync-level-pod-gone-before-delete")
				})
			}
			if jit != nil {
				jit(phase, call)
			}
		}
	}
	out := ctl.Reconcile("ers", "ns", "foo-b", "C")
	s.Fault = nil
	ctx.Count("evaluations")
	attrs := map[string]string{"mode": mode, "role": role, "onePodGone": fmt.Sprint(oneGone)}
	if out.Panic != "" {
		attrs["panic"] = out.Panic
		ctx.Violation("C17", "C17.no-panic", attrs, nil)
		return
	}
	var statusWrite *simapi.Call
	for _, c := range out.Inv.Calls {
		if c.Verb == "status-update" && c.Kind == simapi.KindERS && c.Outcome == simapi.OutOK {
			statusWrite = c
		}
	}
	failed := nFailed["create"] + nFailed["delete"]
	if failed == 0 {
		ctx.Count("C17.sync-level-no-failure")
		return
	}
	ctx.Count("C17.sync-level-judged")
	// "reflected in the error the sync reports": a sync in which pod calls failed does not return success
	// (clean-up deletions are the statement's "or PodsCleanupDone" case: the canary role reports them
	// through that condition and a prompt requeue instead of an error; either is accepted there)
	if out.Err == nil && !(mode == "cleanup" && out.Result.Requeue) {
		ctx.Violation("C17", "C17.error-reported-by-sync", attrs, map[string]any{"mode": mode, "nodes": n, "failedCalls": nFailed, "statusWritten": statusWrite != nil})
	}
	if statusWrite == nil {
		// no status write at all (none was refused here): the conditions cannot reflect anything
		ctx.Violation("C17", "C17.error-reflected-in-condition", merge(attrs, "condition", "no-status-write"), map[string]any{"mode": mode, "nodes": n, "failedCalls": nFailed, "returnedErr": fmt.Sprint(out.Err)})
		return
	}
	st := statusWrite.Submitted.(*v1.ExtendedDaemonSetReplicaSet).Status
	desc := map[string]any{"mode": mode, "nodes": n, "failedCalls": nFailed, "conditions": fmt.Sprintf("%+v", st.Conditions), "returnedErr": fmt.Sprint(out.Err)}
	// "reflected in ... the replica set's ReconcileError or PodsCleanupDone condition"
	recErr := kit.CondTrue(&st, v1.ConditionTypeReconcileError)
	cleanupFalse := false
	if c := kit.Cond(&st, v1.ConditionTypePodsCleanupDone); c != nil && c.Status == corev1.ConditionFalse {
		cleanupFalse = true
	}
	if mode == "cleanup" {
		if !recErr && !cleanupFalse {
			ctx.Violation("C17", "C17.error-reflected-in-condition", merge(attrs, "condition", "ReconcileError-or-PodsCleanupDone"), desc)
		}
	} else if !recErr {
		ctx.Violation("C17", "C17.error-reflected-in-condition", merge(attrs, "condition", "ReconcileError"), desc)
	}
}

// system: the four reconcilers, a kubelet and a user concurrently on one store.
func (e *C17) system(ctx *core.Ctx) {
	r := ctx.Rand
	w := NewWorld(ctx, kit.CtlOpts{Affinity: r.Intn(2) == 0})
	w.MaxTrace = 0
	w.Mode = "C"
	for i := 0; i < 5; i++ {
		w.AddNode(genNode(r, fmt.Sprintf("n%d", i)))
	}
	strat, _ := genStrategy(r, Profile{CanaryProb: 0.5})
	strat.ReconcileFrequency = &metav1.Duration{Duration: time.Second}
	ed := &v1.ExtendedDaemonSet{ObjectMeta: metav1.ObjectMeta{Namespace: "ns1", Name: "foo"}}
	tolKind := r.Intn(3)
	ed.Spec.Template = tplTol("A", tolKind)
	ed.Spec.Strategy = strat
	w.CreateEDS(ed)
	// a second ExtendedDaemonSet of the same namespace: its reconciles run in parallel with foo's
	ed2 := ed.DeepCopy()
	ed2.Name = "bar"
	w.CreateEDS(ed2)
	failProb := []float64{0, 0.1, 1}[r.Intn(3)]
	fr := rand.New(rand.NewSource(r.Int63()))
	w.S.Fault = func(call *simapi.Call) simapi.FaultKind {
		if call.Kind == simapi.KindPod && call.IsWrite() && fr.Float64() < failProb {
			return simapi.Reject
		}
		return simapi.NoFault
	}
	for _, c := range []*simapi.Client{w.Ctl.CEDS, w.Ctl.CERS, w.Ctl.CSet, w.Ctl.CPT} {
		c.Hook = jitterHook(rand.New(rand.NewSource(r.Int63())))
	}
	seeds := make([]int64, 8)
	for i := range seeds {
		seeds[i] = r.Int63()
	}
	const ops = 100
	var wg sync.WaitGroup
	var pmu sync.Mutex
	var panics []string
	run := func(f func(rr *rand.Rand, i int), seed int64) {
		wg.Add(1)
		go func() {
			defer wg.Done()
			rr := rand.New(rand.NewSource(seed))
			for i := 0; i < ops; i++ {
				f(rr, i)
				runtime.Gosched()
			}
		}()
	}
	// like the controller runtime's work queue, never two reconciles of the same object at once
	var inFlight sync.Map
	rec := func(ctlName string, names func() []string) func(*rand.Rand, int) {
		return func(rr *rand.Rand, i int) {
			ns := names()
			if len(ns) == 0 {
				return
			}
			name := ns[rr.Intn(len(ns))]
			if _, busy := inFlight.LoadOrStore(ctlName+"/"+name, true); busy {
				return
			}
			defer inFlight.Delete(ctlName + "/" + name)
			out := w.Ctl.Reconcile(ctlName, "ns1", name, "C")
			if out.Panic != "" {
				pmu.Lock()
				panics = append(panics, ctlName+": "+out.Panic+" @ "+out.PanicAt)
				pmu.Unlock()
			}
		}
	}
	run(rec("eds", func() []string { return []string{"foo", "bar"} }), seeds[0])
	run(rec("podtemplate", func() []string { return []string{"foo", "bar"} }), seeds[1])
	run(rec("ers", func() []string {
		var out []string
		for _, rs := range kit.RSs(w.S) {
			out = append(out, rs.Name)
		}
		sort.Strings(out)
		return out
	}), seeds[2])
	run(rec("setting", func() []string {
		var out []string
		for _, o := range w.S.All(simapi.KindSetting) {
			out = append(out, o.GetName())
		}
		return out
	}), seeds[3])
	// a second worker per main controller (MaxConcurrentReconciles > 1 / different objects in flight)
	run(rec("eds", func() []string { return []string{"foo", "bar"} }), seeds[7])
	run(rec("ers", func() []string {
		var out []string
		for _, rs := range kit.RSs(w.S) {
			out = append(out, rs.Name)
		}
		sort.Strings(out)
		return out
	}), seeds[7]+1)
	run(func(rr *rand.Rand, i int) { w.KubeletStep() }, seeds[4])
	run(func(rr *rand.Rand, i int) { simapi.Advance(time.Duration(1+rr.Intn(3)) * time.Second) }, seeds[5])
	run(func(rr *rand.Rand, i int) {
		switch rr.Intn(6) {
		case 0, 2:
			// frequent template edits: replica sets are created and garbage-collected while others sync
			w.S.Mutate(simapi.KindEDS, "ns1", []string{"foo", "bar"}[rr.Intn(2)], func(o client.Object) {
				o.(*v1.ExtendedDaemonSet).Spec.Template = tplTol([]string{"A", "B", "C"}[rr.Intn(3)], tolKind)
			})
		case 1:
			w.S.Mutate(simapi.KindEDS, "ns1", "foo", func(o client.Object) {
				ee := o.(*v1.ExtendedDaemonSet)
				if ee.Annotations == nil {
					ee.Annotations = map[string]string{}
				}
				ee.Annotations[v1.ExtendedDaemonSetRollingUpdatePausedAnnotationKey] = []string{"true", "false"}[rr.Intn(2)]
			})
		}
	}, seeds[6])
	wg.Wait()
	w.S.Fault = nil
	ctx.Count("C17.system-runs")
	ctx.Count("evaluations")
	ctx.Add("C17.system-calls", int(w.S.Seq()))
	for _, p := range panics {
		ctx.Violation("C17", "C17.no-panic", map[string]string{"where": "system", "panic": firstLine(p)}, nil)
	}
}
