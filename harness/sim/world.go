// Package sim runs the four real reconcilers against the simulated API server together with
// a kubelet/scheduler/GC model, a user and a clock, under several schedules, while monitors
// judge every invocation record (DESIGN.md 2.4-2.6).
package sim

import (
	"bytes"
	"fmt"
	"k8s.io/apimachinery/pkg/types"
	"math/rand"
	"os"
	"sort"
	"strconv"
	"strings"
	"sync"
	"sync/atomic"
	"time"

	appsv1 "k8s.io/api/apps/v1"
	corev1 "k8s.io/api/core/v1"
	metav1 "k8s.io/apimachinery/pkg/apis/meta/v1"
	"sigs.k8s.io/controller-runtime/pkg/client"

	v1 "github.com/DataDog/extendeddaemonset/api/v1alpha1"
	plcanary "github.com/DataDog/extendeddaemonset/pkg/plugin/canary"
	plfreeze "github.com/DataDog/extendeddaemonset/pkg/plugin/freeze"
	plpause "github.com/DataDog/extendeddaemonset/pkg/plugin/pause"

	"vh/core"
	"vh/kit"
	"vh/simapi"
)

// NodeBehaviour are the hostile kubelet knobs of one node.
type NodeBehaviour struct {
	StuckUnscheduled bool          // scheduler never binds pods pinned here
	Unschedulable    bool          // scheduler reports PodScheduled=False/Unschedulable
	WaitingReason    string        // containers stay in this waiting reason
	SlowStart        time.Duration // containers stay ContainerCreating this long
	Restarts         int32         // restart count given to started containers
	NotReady         bool          // pods never become Ready
	StuckTerminating bool          // terminating pods are never finalised
	PhaseOverride    corev1.PodPhase
	FailReason       string // status.reason of the pods a Failed override produces (default Evicted)
}

// createdRec remembers for which ExtendedDaemonSet and node the replica-set controller created a pod, whatever
// labels the pod ended up with (a pod the controller can no longer find is still a pod of its ExtendedDaemonSet).
type createdRec struct {
	EDS, Node string
	Seq       uint64
	UID       string
}

// World is one simulated cluster.
type World struct {
	S     *simapi.Store
	Ctl   *kit.Controllers
	R     *rand.Rand
	Ctx   *core.Ctx
	Mon   *Monitors
	User  *simapi.Client
	Behav map[string]*NodeBehaviour
	// ForceStuck[node]: terminating pods of that node are never finalised, also while the kubelet is cooperative
	// (scripted phases: one unresponsive node in an otherwise healthy cluster)
	ForceStuck map[string]bool
	Coop       bool // cooperative kubelet: ignore hostile knobs
	nestSteps  []string
	// c11Keys: keys of the faultable calls in the order they reached the seam (fault engine)
	c11Keys []string
	// CreatedFor["ns/podname"]: see createdRec
	CreatedFor map[string]createdRec
	// TplLabels["ns/name"]: labels the user puts on every pod template of that ExtendedDaemonSet
	TplLabels map[string]map[string]string
	// phaseStart: virtual instant at which the current cooperative phase began
	phaseStart time.Time
	// ActsAfterFailedRead: see observeActsAfterFailedRead
	ActsAfterFailedRead []string
	// MaxLivePerNode / MaxLiveWitness: see observeLivePods
	MaxLivePerNode int
	MaxLiveWitness string
	// HasOverrides: node override annotations / ExtendedDaemonsetSettings are part of this world
	HasOverrides bool
	Trace        []string
	Steps        int
	MaxTrace     int
	// EDS under observation (ns/name) in creation order
	EDSKeys [][2]string
	// Mode tag recorded in invocations
	Mode string
	// activity counters for fixpoint detection
	podRSWrites     int
	faultsSuspended int
	// N mode
	hookMu     sync.Mutex
	nestDepth  int
	nesting    int32
	NestedProb float64
	nestedAct  func(outer string)
	// LastErr[ctl ns/name] = error text of the last reconcile of that object ("" when none)
	LastErr map[string]string
}

// NewWorld creates an empty world at T0.
func NewWorld(ctx *core.Ctx, opts kit.CtlOpts) *World {
	simapi.SetNow(kit.T0)
	s := simapi.NewStore()
	w := &World{S: s, R: ctx.Rand, Ctx: ctx, Behav: map[string]*NodeBehaviour{}, Mode: "S", MaxTrace: 400, LastErr: map[string]string{}}
	if v, err := strconv.Atoi(os.Getenv("VH_TRACE")); err == nil && v > 0 {
		w.MaxTrace = v
	}
	w.Ctl = kit.NewControllers(s, opts)
	w.User = s.NewClient("user", false)
	w.Mon = NewMonitors(w)
	return w
}

func (w *World) tracef(format string, a ...any) {
	if w.nestDepth > 0 && !strings.HasPrefix(format, "  ") {
		// what happened inside a suspended reconcile, abstracted to the kind of step (for the
		// distinct-interleavings count in the evidence)
		f := strings.Fields(format)
		if len(f) > 2 {
			f = f[:2]
		}
		step := strings.Join(f, " ")
		if strings.HasPrefix(format, "reconcile %s") && len(a) > 0 {
			step = "reconcile " + fmt.Sprint(a[0])
		}
		w.nestSteps = append(w.nestSteps, step)
	}
	if w.MaxTrace <= 0 {
		return
	}
	if len(w.Trace) >= w.MaxTrace {
		// keep the head (set-up) and the most recent part
		keep := w.MaxTrace / 2
		head := w.Trace[:30]
		tail := w.Trace[len(w.Trace)-keep:]
		w.Trace = append(append(append([]string{}, head...), "... (trace truncated) ..."), tail...)
	}
	w.Trace = append(w.Trace, fmt.Sprintf("t+%.1fs ", w.S.Now().Sub(kit.T0).Seconds())+fmt.Sprintf(format, a...))
}

// Now is the virtual instant.
func (w *World) Now() time.Time { return w.S.Now() }

// Advance moves the clock.
func (w *World) Advance(d time.Duration) {
	simapi.Advance(d)
	w.tracef("clock +%s", d)
}

// ---- reconcile -------------------------------------------------------------------------------

// Reconcile runs one controller on one object and feeds the monitors.
func (w *World) Reconcile(ctl, ns, name string) kit.Outcome {
	out := w.Ctl.Reconcile(ctl, ns, name, w.Mode)
	w.Steps++
	nw := 0
	for _, c := range out.Inv.Calls {
		if c.IsWrite() && c.Applied() && (c.Kind == simapi.KindPod || c.Kind == simapi.KindERS) && (c.Verb == "create" || c.Verb == "delete") {
			nw++
		}
	}
	w.podRSWrites += nw
	w.LastErr[ctl+" "+ns+"/"+name] = ""
	if out.Err != nil {
		w.LastErr[ctl+" "+ns+"/"+name] = out.Err.Error()
	}
	w.tracef("reconcile %s %s/%s -> res=%s err=%v panic=%q calls=%d", ctl, ns, name, out.Inv.ResultStr, out.Err, out.Panic, len(out.Inv.Calls))
	w.Mon.OnInvocation(out)
	w.observeLivePods()
	w.observeActsAfterFailedRead(out.Inv)
	if out.Inv.Dead {
		// process stop: every reconciler instance is discarded, in-memory state is lost
		w.Ctl.Rebuild()
		w.tracef("*** controller process restarted (in-memory state lost)")
	}
	return out
}

// observeActsAfterFailedRead: the monitors judge a reconcile against what it read; when a read was
// refused (injected rejection or lost answer) they have nothing to judge against. A reconcile that
// goes on to create or delete pods or replica sets after such a read is recorded here (and is a
// C11 safety violation: see C11.acted-after-failed-read).
func (w *World) observeActsAfterFailedRead(inv *simapi.Invocation) {
	failed := ""
	for _, c := range inv.Calls {
		if !c.IsWrite() {
			// (the canary-label clean-up listing is best effort: its failure is logged and the sync goes on)
			if failed == "" && (c.Fault == simapi.Reject || c.Fault == simapi.LostReply) && !strings.Contains(c.Selector, v1.ExtendedDaemonSetReplicaSetCanaryLabelKey) {
				failed = c.Verb + " " + c.Kind
			}
			continue
		}
		if failed != "" && c.Applied() && (c.Verb == "create" || c.Verb == "delete") && (c.Kind == simapi.KindPod || c.Kind == simapi.KindERS) {
			w.ActsAfterFailedRead = append(w.ActsAfterFailedRead, fmt.Sprintf("%s reconcile of %s/%s: %s %s %s after failed %s", inv.Controller, inv.NS, inv.Name, c.Verb, c.Kind, c.Name, failed))
			w.Ctx.Count("sim.acts-after-failed-read")
			w.Ctx.Count("sim.acts-after-failed-read:" + inv.Controller + ":" + failed + " -> " + c.Verb + " " + c.Kind)
			return
		}
	}
}

// observeLivePods tracks, after every reconcile, the largest number of live daemon pods (not
// terminating, not Failed/Unknown/Succeeded) any node holds for one ExtendedDaemonSet: the
// store-level form of "one pod per node", compared between faulted and failure-free runs (C11).
func (w *World) observeLivePods() {
	cnt := map[string]int{}
	for _, p := range kit.Pods(w.S) {
		name := w.edsNameOfPod(p)
		if name == "" || p.DeletionTimestamp != nil || p.Status.Phase == corev1.PodFailed || p.Status.Phase == corev1.PodUnknown || p.Status.Phase == corev1.PodSucceeded {
			continue
		}
		node := kit.NodeOfPod(p)
		if node == "" {
			continue
		}
		k := p.Namespace + "/" + name + "@" + node
		cnt[k]++
		if cnt[k] > w.MaxLivePerNode {
			w.MaxLivePerNode = cnt[k]
			w.MaxLiveWitness = fmt.Sprintf("%s holds %d live pods after step %d", k, cnt[k], w.Steps)
		}
	}
}

// ReconcileAll reconciles every EDS, setting, PodTemplate and replica set once in a seeded
// random order; returns the smallest positive RequeueAfter seen on EDS reconciles.
func (w *World) ReconcileAll() (minRequeue time.Duration, anyErr bool) {
	type job struct{ ctl, ns, name string }
	var jobs []job
	for _, o := range w.S.All(simapi.KindEDS) {
		jobs = append(jobs, job{"eds", o.GetNamespace(), o.GetName()}, job{"podtemplate", o.GetNamespace(), o.GetName()})
	}
	for _, o := range w.S.All(simapi.KindSetting) {
		jobs = append(jobs, job{"setting", o.GetNamespace(), o.GetName()})
	}
	for _, o := range w.S.All(simapi.KindERS) {
		jobs = append(jobs, job{"ers", o.GetNamespace(), o.GetName()})
	}
	w.R.Shuffle(len(jobs), func(i, j int) { jobs[i], jobs[j] = jobs[j], jobs[i] })
	for _, j := range jobs {
		out := w.Reconcile(j.ctl, j.ns, j.name)
		if out.Err != nil || out.Panic != "" {
			anyErr = true
		}
		if j.ctl == "eds" && out.Result.RequeueAfter > 0 && (minRequeue == 0 || out.Result.RequeueAfter < minRequeue) {
			minRequeue = out.Result.RequeueAfter
		}
	}
	return minRequeue, anyErr
}

// ---- kubelet / scheduler / GC model ------------------------------------------------------------

func (w *World) behav(node string) *NodeBehaviour {
	if w.Coop {
		if w.ForceStuck[node] {
			return &NodeBehaviour{StuckTerminating: true}
		}
		return &NodeBehaviour{}
	}
	if b := w.Behav[node]; b != nil {
		return b
	}
	return &NodeBehaviour{}
}

// KubeletStep runs scheduler binding, pod start, readiness, finalisation and GC once.
func (w *World) KubeletStep() {
	now := w.Now()
	nodes := map[string]*corev1.Node{}
	for _, n := range kit.Nodes(w.S) {
		nodes[n.Name] = n
	}
	rsUID := map[string]bool{}
	for _, rs := range kit.RSs(w.S) {
		rsUID[string(rs.UID)] = true
	}
	edsUID := map[string]bool{}
	for _, o := range w.S.All(simapi.KindEDS) {
		edsUID[string(o.GetUID())] = true
	}
	dsUID := map[string]bool{}
	for _, o := range w.S.All(simapi.KindDS) {
		dsUID[string(o.GetUID())] = true
	}
	// GC of replica sets whose owner EDS is gone
	for _, rs := range kit.RSs(w.S) {
		for _, o := range rs.OwnerReferences {
			if o.Kind == "ExtendedDaemonSet" && !edsUID[string(o.UID)] {
				w.S.Remove(simapi.KindERS, rs.Namespace, rs.Name)
				w.tracef("gc: replica set %s/%s (owner gone)", rs.Namespace, rs.Name)
			}
		}
	}
	for _, p := range kit.Pods(w.S) {
		// GC: controller owner gone
		orphan := false
		for _, o := range p.OwnerReferences {
			if o.Controller != nil && *o.Controller {
				if (o.Kind == "ExtendedDaemonSetReplicaSet" && !rsUID[string(o.UID)]) || (o.Kind == "DaemonSet" && !dsUID[string(o.UID)]) {
					orphan = true
				}
			}
		}
		nodeName := kit.NodeOfPod(p)
		b := w.behav(nodeName)
		if orphan && p.DeletionTimestamp == nil {
			w.envDelete(p)
			w.tracef("gc: pod %s (owner gone)", p.Name)
			continue
		}
		// pods bound to vanished nodes are force-removed by the pod GC
		if p.Spec.NodeName != "" && nodes[p.Spec.NodeName] == nil {
			w.S.Remove(simapi.KindPod, p.Namespace, p.Name)
			w.tracef("podgc: pod %s (node %s gone)", p.Name, p.Spec.NodeName)
			continue
		}
		// finalise terminating pods
		if p.DeletionTimestamp != nil {
			if b.StuckTerminating {
				continue
			}
			if w.Coop || !now.Before(p.DeletionTimestamp.Time.Add(2*time.Second)) {
				w.S.Remove(simapi.KindPod, p.Namespace, p.Name)
				w.tracef("kubelet: finalised pod %s on %s", p.Name, nodeName)
			}
			continue
		}
		if p.Status.Phase == corev1.PodFailed || p.Status.Phase == corev1.PodUnknown || p.Status.Phase == corev1.PodSucceeded {
			if w.Coop && p.Status.Phase == corev1.PodUnknown {
				// node came back: phase recovers
				w.S.Mutate(simapi.KindPod, p.Namespace, p.Name, func(o client.Object) { o.(*corev1.Pod).Status.Phase = corev1.PodRunning })
			}
			continue
		}
		// scheduler
		if p.Spec.NodeName == "" {
			if nodeName == "" || nodes[nodeName] == nil || b.StuckUnscheduled {
				continue
			}
			if b.Unschedulable {
				w.S.Mutate(simapi.KindPod, p.Namespace, p.Name, func(o client.Object) {
					pp := o.(*corev1.Pod)
					setPodCond(pp, corev1.PodCondition{Type: corev1.PodScheduled, Status: corev1.ConditionFalse, Reason: corev1.PodReasonUnschedulable, LastTransitionTime: metav1.NewTime(now)})
				})
				continue
			}
			w.S.Mutate(simapi.KindPod, p.Namespace, p.Name, func(o client.Object) {
				pp := o.(*corev1.Pod)
				pp.Spec.NodeName = nodeName
				setPodCond(pp, corev1.PodCondition{Type: corev1.PodScheduled, Status: corev1.ConditionTrue, LastTransitionTime: metav1.NewTime(now)})
			})
			w.tracef("scheduler: bound pod %s to %s", p.Name, nodeName)
			continue // started at the next kubelet step
		}
		// kubelet: start / readiness
		w.S.Mutate(simapi.KindPod, p.Namespace, p.Name, func(o client.Object) {
			pp := o.(*corev1.Pod)
			if b.PhaseOverride != "" {
				pp.Status.Phase = b.PhaseOverride
				if b.PhaseOverride == corev1.PodFailed {
					pp.Status.Reason = "Evicted"
					if b.FailReason != "" {
						pp.Status.Reason = b.FailReason // rejected by the kubelet's admission
					}
				}
				setPodCond(pp, corev1.PodCondition{Type: corev1.PodReady, Status: corev1.ConditionFalse, LastTransitionTime: metav1.NewTime(now)})
				return
			}
			if pp.Status.StartTime == nil {
				t := metav1.NewTime(now)
				pp.Status.StartTime = &t
			}
			started := pp.Status.StartTime.Time
			var css []corev1.ContainerStatus
			allRunning := true
			for _, c := range pp.Spec.Containers {
				cs := corev1.ContainerStatus{Name: c.Name, Image: c.Image}
				for _, old := range pp.Status.ContainerStatuses {
					if old.Name == c.Name {
						cs.RestartCount = old.RestartCount
						cs.LastTerminationState = old.LastTerminationState
					}
				}
				switch {
				case b.WaitingReason != "":
					cs.State.Waiting = &corev1.ContainerStateWaiting{Reason: b.WaitingReason}
					allRunning = false
				case b.SlowStart > 0 && now.Before(started.Add(b.SlowStart)):
					cs.State.Waiting = &corev1.ContainerStateWaiting{Reason: "ContainerCreating"}
					allRunning = false
				default:
					cs.State.Running = &corev1.ContainerStateRunning{StartedAt: metav1.NewTime(started)}
					cs.Ready = !b.NotReady
				}
				if b.Restarts > cs.RestartCount {
					cs.RestartCount = b.Restarts
					cs.LastTerminationState = corev1.ContainerState{Terminated: &corev1.ContainerStateTerminated{Reason: "Error", ExitCode: 1, FinishedAt: metav1.NewTime(now)}}
					if strings.HasSuffix(nodeName, "3") {
						// this node's kubelet reports the restart count but lost the record of the last
						// termination (lastState: {}), as after a kubelet restart or container garbage collection
						cs.LastTerminationState = corev1.ContainerState{}
					}
				}
				css = append(css, cs)
			}
			pp.Status.ContainerStatuses = css
			pp.Status.Phase = corev1.PodRunning
			if !allRunning {
				pp.Status.Phase = corev1.PodPending
			}
			ready := allRunning && !b.NotReady
			st := corev1.ConditionFalse
			if ready {
				st = corev1.ConditionTrue
			} else if b.NotReady && len(nodeName)%2 == 1 {
				// a node that stopped reporting: the node controller marks the pod's Ready condition Unknown
				st = corev1.ConditionUnknown
			}
			cur := getPodCond(pp, corev1.PodReady)
			if cur == nil || cur.Status != st {
				setPodCond(pp, corev1.PodCondition{Type: corev1.PodReady, Status: st, LastTransitionTime: metav1.NewTime(now)})
			}
		})
	}
}

func getPodCond(p *corev1.Pod, t corev1.PodConditionType) *corev1.PodCondition {
	for i := range p.Status.Conditions {
		if p.Status.Conditions[i].Type == t {
			return &p.Status.Conditions[i]
		}
	}
	return nil
}

func setPodCond(p *corev1.Pod, c corev1.PodCondition) {
	for i := range p.Status.Conditions {
		if p.Status.Conditions[i].Type == c.Type {
			p.Status.Conditions[i] = c
			return
		}
	}
	p.Status.Conditions = append(p.Status.Conditions, c)
}

// envDelete deletes a pod the way an environment actor would (through a non-faultable client).
func (w *World) envDelete(p *corev1.Pod) {
	_ = w.User.Delete(nil, p.DeepCopy())
}

// ---- user actions ---------------------------------------------------------------------------------

// CreateEDS creates an EDS through the user client (status stripped by the server).
// withTplLabels adds the labels every template of that ExtendedDaemonSet carries in this world (TplLabels).
func (w *World) withTplLabels(ns, name string, tpl *corev1.PodTemplateSpec) {
	extra := w.TplLabels[ns+"/"+name]
	if len(extra) == 0 {
		return
	}
	l := map[string]string{}
	for k, v := range tpl.Labels {
		l[k] = v
	}
	for k, v := range extra {
		l[k] = v
	}
	tpl.Labels = l
}

func (w *World) CreateEDS(e *v1.ExtendedDaemonSet) {
	e = e.DeepCopy()
	w.withTplLabels(e.Namespace, e.Name, &e.Spec.Template)
	if err := w.User.Create(nil, e.DeepCopy()); err != nil {
		panic(err)
	}
	w.EDSKeys = append(w.EDSKeys, [2]string{e.Namespace, e.Name})
	w.tracef("user: create EDS %s/%s template=%s", e.Namespace, e.Name, kit.MarkerOfTemplate(&e.Spec.Template))
}

// SetTemplate edits spec.template of an EDS.
func (w *World) SetTemplate(ns, name string, tpl corev1.PodTemplateSpec) {
	w.withTplLabels(ns, name, &tpl)
	w.S.Mutate(simapi.KindEDS, ns, name, func(o client.Object) { o.(*v1.ExtendedDaemonSet).Spec.Template = *tpl.DeepCopy() })
	w.tracef("user: set template of %s/%s to %s", ns, name, kit.MarkerOfTemplate(&tpl))
	w.Mon.OnTemplateEdit(ns, name)
}

// Annotate sets (val != "") or removes an annotation of an EDS.
func (w *World) Annotate(ns, name, key, val string) {
	w.S.Mutate(simapi.KindEDS, ns, name, func(o client.Object) {
		e := o.(*v1.ExtendedDaemonSet)
		if e.Annotations == nil {
			e.Annotations = map[string]string{}
		}
		if val == "" {
			delete(e.Annotations, key)
		} else {
			e.Annotations[key] = val
		}
	})
	w.tracef("user: annotate %s/%s %s=%q", ns, name, key, val)
}

// Kubectl runs a real kubectl-eds command body; returns its error.
func (w *World) Kubectl(cmd, ns, name string) error {
	var out bytes.Buffer
	var err error
	inv := w.User.Begin(0, "kubectl:"+cmd, ns, name, w.Mode)
	func() {
		defer func() {
			if r := recover(); r != nil {
				err = fmt.Errorf("panic: %v", r)
				inv.Panic = fmt.Sprint(r)
			}
		}()
		switch cmd {
		case "canary-pause":
			err = plcanary.VerifRunPause(w.User, ns, name, true, &out)
		case "canary-unpause":
			err = plcanary.VerifRunPause(w.User, ns, name, false, &out)
		case "canary-validate":
			err = plcanary.VerifRunValidate(w.User, ns, name, &out)
		case "canary-fail":
			err = plcanary.VerifRunFail(w.User, ns, name, &out)
		case "pause-rolling-update":
			err = plpause.VerifRunPause(w.User, ns, name, true, &out)
		case "unpause-rolling-update":
			err = plpause.VerifRunPause(w.User, ns, name, false, &out)
		case "freeze-rollout":
			err = plfreeze.VerifRunFreeze(w.User, ns, name, true, &out)
		case "unfreeze-rollout":
			err = plfreeze.VerifRunFreeze(w.User, ns, name, false, &out)
		default:
			panic("unknown kubectl-eds command " + cmd)
		}
	}()
	inv.Err = err
	w.User.End()
	w.tracef("user: kubectl-eds %s %s/%s -> err=%v", cmd, ns, name, err)
	w.Mon.OnCommand(cmd, ns, name, inv, err)
	return err
}

// AddNode adds a node.
func (w *World) AddNode(n *corev1.Node) {
	w.S.Inject(n.DeepCopy())
	w.tracef("env: add node %s labels=%v taints=%v", n.Name, n.Labels, n.Spec.Taints)
}

// DeleteEDSCascade removes an ExtendedDaemonSet the way a user's delete plus the garbage collector do: the object,
// the replica sets and the PodTemplate it owns, and the pods those replica sets own.
func (w *World) DeleteEDSCascade(ns, name string) {
	for _, rs := range kit.RSs(w.S) {
		if rs.Namespace == ns && rs.Labels[v1.ExtendedDaemonSetNameLabelKey] == name {
			w.S.Remove(simapi.KindERS, ns, rs.Name)
		}
	}
	for _, o := range w.S.All(simapi.KindPod) {
		if o.GetNamespace() == ns && o.GetLabels()[v1.ExtendedDaemonSetNameLabelKey] == name {
			w.S.Remove(simapi.KindPod, ns, o.GetName())
		}
	}
	w.S.Remove(simapi.KindPodTpl, ns, name)
	w.S.Remove(simapi.KindEDS, ns, name)
	w.tracef("user: delete %s/%s (the garbage collector removes its replica sets, pods and PodTemplate)", ns, name)
}

// RemoveNode deletes a node.
func (w *World) RemoveNode(name string) {
	w.S.Remove(simapi.KindNode, "", name)
	w.tracef("env: remove node %s", name)
}

// MutateNode edits a node.
func (w *World) MutateNode(name, what string, f func(n *corev1.Node)) {
	w.S.Mutate(simapi.KindNode, "", name, func(o client.Object) { f(o.(*corev1.Node)) })
	w.tracef("env: node %s %s", name, what)
}

// DeletePod deletes a pod as a user would.
func (w *World) DeletePod(p *corev1.Pod) {
	w.envDelete(p)
	w.tracef("user: delete pod %s", p.Name)
}

// NewOldDaemonSet creates a DaemonSet with one running pod per given node (migration start state).
func (w *World) NewOldDaemonSet(ns, name string, podLabels map[string]string, nodes []string) {
	ds := &appsv1.DaemonSet{ObjectMeta: metav1.ObjectMeta{Namespace: ns, Name: name}}
	ds.Spec.Selector = &metav1.LabelSelector{MatchLabels: podLabels}
	st := w.S.Inject(ds)
	tr := true
	for _, n := range nodes {
		p := &corev1.Pod{ObjectMeta: metav1.ObjectMeta{Namespace: ns, GenerateName: name + "-", Labels: copyMap(podLabels),
			OwnerReferences: []metav1.OwnerReference{{APIVersion: "apps/v1", Kind: "DaemonSet", Name: name, UID: st.GetUID(), Controller: &tr}}},
			Spec: corev1.PodSpec{NodeName: n, Containers: []corev1.Container{{Name: "main", Image: "img:old-ds"}}}}
		p.Labels[kit.MarkerLabel] = "old-ds"
		p.Status.Phase = corev1.PodRunning
		p.Status.Conditions = []corev1.PodCondition{kit.ReadyCond(true, w.Now())}
		w.S.Inject(p)
	}
	w.tracef("env: old DaemonSet %s/%s with pods on %v", ns, name, nodes)
}

// NewLookalikePod: a pod whose labels match the old DaemonSet's selector and whose controller has
// the old DaemonSet's name but another kind (a StatefulSet called like the DaemonSet): not a pod
// "owned by the named old DaemonSet".
func (w *World) NewLookalikePod(ns, name string, podLabels map[string]string, node string) {
	tr := true
	p := &corev1.Pod{ObjectMeta: metav1.ObjectMeta{Namespace: ns, Name: name + "-sts-0", Labels: copyMap(podLabels),
		OwnerReferences: []metav1.OwnerReference{{APIVersion: "apps/v1", Kind: "StatefulSet", Name: name, UID: "uid-sts-" + types.UID(name), Controller: &tr}}},
		Spec: corev1.PodSpec{NodeName: node, Containers: []corev1.Container{{Name: "main", Image: "img:sts"}}}}
	p.Labels[kit.MarkerLabel] = "statefulset"
	p.Status.Phase = corev1.PodRunning
	p.Status.Conditions = []corev1.PodCondition{kit.ReadyCond(true, w.Now())}
	w.S.Inject(p)
	w.tracef("env: pod %s/%s (StatefulSet %s, labels of the old DaemonSet) on %s", ns, p.Name, name, node)
}

func copyMap(m map[string]string) map[string]string {
	out := map[string]string{}
	for k, v := range m {
		out[k] = v
	}
	return out
}

// DaemonPods returns the daemon pods of an EDS: pods of its namespace carrying its name label.
func (w *World) DaemonPods(ns, name string) []*corev1.Pod {
	var out []*corev1.Pod
	for _, p := range kit.Pods(w.S) {
		if p.Namespace == ns && (p.Labels[v1.ExtendedDaemonSetNameLabelKey] == name || w.edsNameOfPod(p) == name) {
			out = append(out, p)
		}
	}
	return out
}

// edsNameOfPod: the ExtendedDaemonSet the pod belongs to: the one whose replica-set controller created it
// (whatever its labels say), else the one its name label names.
func (w *World) edsNameOfPod(p *corev1.Pod) string {
	if rec, ok := w.CreatedFor[p.Namespace+"/"+p.Name]; ok && rec.UID == string(p.UID) {
		return rec.EDS
	}
	return p.Labels[v1.ExtendedDaemonSetNameLabelKey]
}

// SortedNodeNames lists node names.
func (w *World) SortedNodeNames() []string {
	var out []string
	for _, n := range kit.Nodes(w.S) {
		out = append(out, n.Name)
	}
	sort.Strings(out)
	return out
}

// Round is one bounded-progress round: clock step, all reconciles, kubelet.
func (w *World) Round(step time.Duration) (minRequeue time.Duration) {
	w.Advance(step)
	mr, _ := w.ReconcileAll()
	w.KubeletStep()
	w.KubeletStep()
	return mr
}

// EnableNested installs the N-mode yield hook on the four controller clients: before an API
// call of a reconcile, with probability p, one or two other actors act (environment step, user
// action, clock step, or — to depth 1 — one complete reconcile of a different controller).
func (w *World) EnableNested(p float64, act func(outer string)) {
	w.NestedProb = p
	w.nestedAct = act
	for name, c := range map[string]*simapi.Client{"eds": w.Ctl.CEDS, "ers": w.Ctl.CERS, "setting": w.Ctl.CSet, "podtemplate": w.Ctl.CPT} {
		name, c := name, c
		c.Hook = func(phase string, call *simapi.Call) {
			if phase != "pre" || w.Coop {
				return
			}
			// calls issued by nested actors (depth 1) and by sibling goroutines of a fan-out while
			// a nested action is running do not yield again
			if !atomic.CompareAndSwapInt32(&w.nesting, 0, 1) {
				return
			}
			defer atomic.StoreInt32(&w.nesting, 0)
			w.hookMu.Lock()
			defer w.hookMu.Unlock()
			if w.R.Float64() >= w.NestedProb {
				return
			}
			w.nestDepth++
			if inv := c.Cur; inv != nil {
				inv.Nested = true
			}
			w.tracef("  >> nested (inside %s reconcile, before %s %s)", name, call.Verb, call.Kind)
			w.nestSteps = w.nestSteps[:0]
			n := 1 + w.R.Intn(2)
			for i := 0; i < n; i++ {
				w.nestedAct(name)
			}
			w.tracef("  << end nested")
			w.Ctx.Count("sim.nested-yields")
			w.Ctx.Distinct("interleavings", name+" before "+call.Verb+" "+call.Kind+" @"+call.Callsite+" <- "+strings.Join(w.nestSteps, "; "))
			w.nestDepth--
		}
	}
}
