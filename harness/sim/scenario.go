package sim

import (
	"context"
	"fmt"
	"math/rand"
	"strings"
	"time"

	corev1 "k8s.io/api/core/v1"
	metav1 "k8s.io/apimachinery/pkg/apis/meta/v1"
	"k8s.io/apimachinery/pkg/util/intstr"

	v1 "github.com/DataDog/extendeddaemonset/api/v1alpha1"

	"vh/core"
	"vh/kit"
	"vh/oracle"
	"vh/simapi"

	"sigs.k8s.io/controller-runtime/pkg/client"
)

// Profile tunes the random scenario generator for the property a check focuses on.
type Profile struct {
	Name       string
	Steps      int     // hostile-phase steps
	CanaryProb float64 // probability that the EDS has a canary strategy
	Hostile    float64 // weight of kubelet misbehaviour actions
	Churn      float64 // weight of node churn
	Edits      float64 // weight of template edits
	Holds      float64 // weight of pause/freeze/canary annotation actions
	Commands   float64 // weight of kubectl-eds commands
	DupPods    float64 // weight of hand-made duplicate pods / user pod deletions
	MultiEDS   bool    // two or three EDS populations (C12)
	OldDS      float64 // probability of a migration start state
	Converge   bool    // run the convergence phase at the end
	Retention  bool    // run the retention phase after a rollback
	Affinity   int     // -1 random, 0 nodeName mode, 1 affinity mode
	MaxNodes   int
	// PodFaults: probability that a pod create/delete issued by a controller is rejected (0 = none)
	PodFaults float64
	// EDSFaults: probability that a write of the EDS controller to the ExtendedDaemonSet object
	// (status update or spec update) is rejected
	EDSFaults float64
	// RSFaults: probability that a replica-set create/delete issued by the ExtendedDaemonSet controller is
	// rejected or applied with its answer lost
	RSFaults float64
	// Big: a cluster of 25-104 nodes with budgets, ramps and canary sizes that only bite at that scale
	Big bool
	// ReadFaults: probability that a list issued by a controller (replica sets, settings, pods, nodes) is
	// rejected; the reconcile has to give up rather than act on what it could not read
	ReadFaults float64
	// Burst: extra weight of back-to-back replica-set reconcile requests at +0 / +0.4s / freq-1s
	Burst float64
	// Nested: N-mode yield probability per API call (0 = atomic reconciles, schedule S)
	Nested float64
	// EventDriven: run the convergence phase in E mode (events, requeues and error retries only)
	EventDriven bool
	// Widen: extra probability that an edited template tolerates a taint the others do not (its canary can
	// then sit on nodes the previously active template cannot use)
	Widen float64
	// EnvOrder: probability that an edited template carries a two-variable env list in one of its two orders
	EnvOrder float64
	// Overrides: weight of node override annotation / ExtendedDaemonsetSetting actions (0 = none exist)
	Overrides float64
	// CanarySteady: before the end, hold a running manual canary open and judge its steady state (C04)
	CanarySteady bool
}

// Sim is the scenario engine: one case = one generated history.
type Sim struct {
	Prop    string
	P       Profile
	NQuick  int
	NThor   int
	FloorsQ map[string]int
}

func (e *Sim) Name() string { return "sim." + e.P.Name }
func (e *Sim) Rule() string {
	return fmt.Sprintf("seeded histories (profile %s): 2-%d nodes with labels/taints, template alphabet A/B/C (+ a selector-changing variant), strategy lattice (maxUnavailable, maxPodSchedulerFailure, slow-start, reconcileFrequency, canary none/auto/manual x replicas), %d hostile steps drawn from reconciles of all four controllers in arbitrary fair order, kubelet/scheduler steps with misbehaviour knobs, clock steps, template edits, annotation toggles, real kubectl-eds command bodies, node churn, hand-made duplicate pods; every invocation record is judged by all monitors; non-trivial = distinct abstract cluster states (per-node template/readiness vector + EDS state + role set) in which a judged rule's antecedent occurred", e.P.Name, e.P.MaxNodes, e.P.Steps)
}
func (e *Sim) Cases(tier string, _ int64) int {
	if tier == "thorough" {
		return e.NThor
	}
	return e.NQuick
}

// Floors: the engine's own antecedent floors plus two that every simulated history must reach
// whatever the property (a run in which the replica-set controller never manages to write its
// status or to create pods has judged next to nothing: inconclusive, not "held").
func (e *Sim) Floors(tier string) map[string]int {
	out := map[string]int{"sim.calls.status-update.ExtendedDaemonSetReplicaSet": 1000, "sim.calls.create.Pod": 300, "sim.calls.status-update.ExtendedDaemonSet": 500}
	for k, v := range e.FloorsQ {
		out[k] = v
	}
	return out
}

var stdTemplates = []string{"A", "B", "C"}

// shape decides eligibility-relevant parts of the templates of one scenario.
type shape struct {
	Selector    map[string]string
	Affinity    *corev1.Affinity
	Tolerations []corev1.Toleration
	// Exported: the template's metadata was copied from a live pod of another ExtendedDaemonSet ("kubectl get pod -o yaml"):
	// it carries the controller's own labels and annotations with foreign values, a namespace and a generateName.
	Exported bool
	// Init: the template has an init container named "sidecar" (the name some settings and override annotations use)
	Init bool
}

func (s shape) tpl(marker string) corev1.PodTemplateSpec {
	t := kit.Tpl(marker)
	t.Spec.NodeSelector = s.Selector
	t.Spec.Affinity = s.Affinity.DeepCopy()
	t.Spec.Tolerations = append([]corev1.Toleration{}, s.Tolerations...)
	if s.Exported {
		kit.ExportedMeta(&t)
	}
	if s.Init {
		t.Spec.InitContainers = []corev1.Container{{Name: "sidecar", Image: "img:init"}}
	}
	return t
}

func genShape(r *rand.Rand) shape {
	var s shape
	switch r.Intn(7) {
	case 5:
		// the template itself excludes a node by name (in nodeName mode the created pods carry this term and
		// their own spec.nodeName: the two name different nodes)
		s.Affinity = &corev1.Affinity{NodeAffinity: &corev1.NodeAffinity{RequiredDuringSchedulingIgnoredDuringExecution: &corev1.NodeSelector{NodeSelectorTerms: []corev1.NodeSelectorTerm{
			{MatchFields: []corev1.NodeSelectorRequirement{{Key: "metadata.name", Operator: corev1.NodeSelectorOpNotIn, Values: []string{"n0"}}}}}}}}
	case 6:
		// the template lists the nodes it wants by name, one term each
		s.Affinity = &corev1.Affinity{NodeAffinity: &corev1.NodeAffinity{RequiredDuringSchedulingIgnoredDuringExecution: &corev1.NodeSelector{NodeSelectorTerms: []corev1.NodeSelectorTerm{
			{MatchFields: []corev1.NodeSelectorRequirement{{Key: "metadata.name", Operator: corev1.NodeSelectorOpIn, Values: []string{"n1"}}}},
			{MatchFields: []corev1.NodeSelectorRequirement{{Key: "metadata.name", Operator: corev1.NodeSelectorOpIn, Values: []string{"n2"}}}},
			{MatchFields: []corev1.NodeSelectorRequirement{{Key: "metadata.name", Operator: corev1.NodeSelectorOpIn, Values: []string{"n3"}}}}}}}}
	case 0:
		s.Selector = map[string]string{"role": "agent"}
	case 1:
		s.Affinity = &corev1.Affinity{NodeAffinity: &corev1.NodeAffinity{RequiredDuringSchedulingIgnoredDuringExecution: &corev1.NodeSelector{NodeSelectorTerms: []corev1.NodeSelectorTerm{
			{MatchExpressions: []corev1.NodeSelectorRequirement{{Key: "type", Operator: corev1.NodeSelectorOpNotIn, Values: []string{"excluded"}}}}}}}}
	case 2:
		s.Affinity = &corev1.Affinity{NodeAffinity: &corev1.NodeAffinity{RequiredDuringSchedulingIgnoredDuringExecution: &corev1.NodeSelector{NodeSelectorTerms: []corev1.NodeSelectorTerm{
			{MatchExpressions: []corev1.NodeSelectorRequirement{{Key: "zone", Operator: corev1.NodeSelectorOpIn, Values: []string{"a"}}}},
			{MatchExpressions: []corev1.NodeSelectorRequirement{{Key: "zone", Operator: corev1.NodeSelectorOpIn, Values: []string{"b"}}, {Key: "type", Operator: corev1.NodeSelectorOpDoesNotExist}}}}}}}
	}
	if r.Intn(3) == 0 {
		s.Tolerations = []corev1.Toleration{{Key: "dedicated", Operator: corev1.TolerationOpEqual, Value: "infra", Effect: corev1.TaintEffectNoSchedule}}
		if r.Intn(3) == 0 {
			// every key, but only the NoSchedule effect: a NoExecute taint stays untolerated
			s.Tolerations = []corev1.Toleration{{Operator: corev1.TolerationOpExists, Effect: corev1.TaintEffectNoSchedule}}
		}
	}
	s.Exported = r.Intn(5) == 0
	s.Init = r.Intn(4) == 0
	return s
}

func genNode(r *rand.Rand, name string) *corev1.Node {
	// (every node carries app=agent: an ExtendedDaemonSet whose spec.selector - a NODE selector for this controller,
	// although DaemonSet-shaped manifests set it to the pod labels - is app=agent then still targets all of them)
	l := map[string]string{"zone": []string{"a", "b", "c"}[r.Intn(3)], "app": "agent"}
	if r.Intn(4) != 0 {
		l["role"] = "agent"
	}
	if r.Intn(5) == 0 {
		l["type"] = []string{"excluded", "gpu"}[r.Intn(2)]
	}
	var taints []corev1.Taint
	switch r.Intn(8) {
	case 0:
		taints = append(taints, corev1.Taint{Key: "dedicated", Value: "infra", Effect: corev1.TaintEffectNoSchedule})
	case 1:
		taints = append(taints, corev1.Taint{Key: "node.kubernetes.io/unschedulable", Effect: corev1.TaintEffectNoSchedule})
	case 2:
		taints = append(taints, corev1.Taint{Key: "maintenance", Value: "x", Effect: corev1.TaintEffectPreferNoSchedule})
	case 3:
		taints = append(taints, corev1.Taint{Key: "draining", Value: "x", Effect: corev1.TaintEffectNoExecute})
	}
	nd := kit.Node(name, l, taints...)
	nd.Status.Conditions = []corev1.NodeCondition{{Type: corev1.NodeReady, Status: corev1.ConditionTrue}}
	return nd
}

func genStrategy(r *rand.Rand, p Profile) (v1.ExtendedDaemonSetSpecStrategy, string) {
	var st v1.ExtendedDaemonSetSpecStrategy
	mus := []intstr.IntOrString{intstr.FromInt(1), intstr.FromInt(2), intstr.FromString("50%"), intstr.FromString("100%")}
	mu := mus[r.Intn(len(mus))]
	st.RollingUpdate.MaxUnavailable = &mu
	mpsfs := []intstr.IntOrString{intstr.FromInt(0), intstr.FromInt(1), intstr.FromString("25%")}
	mpsf := mpsfs[r.Intn(len(mpsfs))]
	st.RollingUpdate.MaxPodSchedulerFailure = &mpsf
	incs := []intstr.IntOrString{intstr.FromInt(1), intstr.FromInt(2), intstr.FromString("50%")}
	inc := incs[r.Intn(len(incs))]
	st.RollingUpdate.SlowStartAdditiveIncrease = &inc
	st.RollingUpdate.SlowStartIntervalDuration = &metav1.Duration{Duration: []time.Duration{time.Second, time.Minute}[r.Intn(2)]}
	mp := []int32{1, 2, 250}[r.Intn(3)]
	st.RollingUpdate.MaxParallelPodCreation = &mp
	st.ReconcileFrequency = &metav1.Duration{Duration: []time.Duration{time.Second, 10 * time.Second}[r.Intn(2)]}
	if p.Big {
		mus = []intstr.IntOrString{intstr.FromInt(5), intstr.FromInt(13), intstr.FromString("10%"), intstr.FromString("33%"), intstr.FromString("100%")}
		mu = mus[r.Intn(len(mus))]
		st.RollingUpdate.MaxUnavailable = &mu
		mpsfs = []intstr.IntOrString{intstr.FromInt(0), intstr.FromInt(3), intstr.FromString("10%")}
		mpsf = mpsfs[r.Intn(len(mpsfs))]
		st.RollingUpdate.MaxPodSchedulerFailure = &mpsf
		incs = []intstr.IntOrString{intstr.FromInt(3), intstr.FromInt(7), intstr.FromString("5%"), intstr.FromString("15%")}
		inc = incs[r.Intn(len(incs))]
		st.RollingUpdate.SlowStartAdditiveIncrease = &inc
		mp = []int32{4, 10, 250}[r.Intn(3)]
		st.RollingUpdate.MaxParallelPodCreation = &mp
	}
	kind := "none"
	if r.Float64() < p.CanaryProb {
		c := &v1.ExtendedDaemonSetSpecStrategyCanary{}
		reps := []intstr.IntOrString{intstr.FromInt(1), intstr.FromInt(2), intstr.FromInt(3), intstr.FromInt(4), intstr.FromString("50%"), intstr.FromString("75%")}
		if p.Big {
			reps = []intstr.IntOrString{intstr.FromInt(7), intstr.FromInt(12), intstr.FromString("10%"), intstr.FromString("33%"), intstr.FromString("40%")}
		}
		rep := reps[r.Intn(len(reps))]
		c.Replicas = &rep
		if r.Intn(3) == 0 {
			c.ValidationMode = v1.ExtendedDaemonSetSpecStrategyCanaryValidationModeManual
			kind = "manual"
		} else {
			c.ValidationMode = v1.ExtendedDaemonSetSpecStrategyCanaryValidationModeAuto
			c.Duration = &metav1.Duration{Duration: []time.Duration{30 * time.Second, 3 * time.Minute}[r.Intn(2)]}
			if r.Intn(2) == 0 {
				c.NoRestartsDuration = &metav1.Duration{Duration: 20 * time.Second}
			} else {
				c.NoRestartsDuration = &metav1.Duration{Duration: 0}
			}
			kind = "auto"
		}
		switch r.Intn(6) {
		case 0, 1:
			c.NodeAntiAffinityKeys = []string{"zone"}
		case 2, 3:
			// a label most nodes lack: the values are very unevenly distributed
			c.NodeAntiAffinityKeys = []string{"type"}
		}
		switch r.Intn(12) {
		case 0:
			c.NodeSelector = &metav1.LabelSelector{MatchLabels: map[string]string{"role": "agent"}}
		case 1:
			c.NodeSelector = &metav1.LabelSelector{MatchExpressions: []metav1.LabelSelectorRequirement{{Key: "zone", Operator: metav1.LabelSelectorOpIn, Values: []string{"a", "b"}}}}
		case 2:
			c.NodeSelector = &metav1.LabelSelector{MatchExpressions: []metav1.LabelSelectorRequirement{{Key: "type", Operator: metav1.LabelSelectorOpDoesNotExist}}}
		}
		if r.Intn(4) == 0 {
			f := false
			c.AutoPause = &v1.ExtendedDaemonSetSpecStrategyCanaryAutoPause{Enabled: &f}
		} else if r.Intn(3) == 0 {
			// the optional, never defaulted slow-start supervision
			c.AutoPause = &v1.ExtendedDaemonSetSpecStrategyCanaryAutoPause{MaxSlowStartDuration: &metav1.Duration{Duration: []time.Duration{time.Minute, 5 * time.Second}[r.Intn(2)]}}
		}
		if r.Intn(4) == 0 {
			f := false
			c.AutoFail = &v1.ExtendedDaemonSetSpecStrategyCanaryAutoFail{Enabled: &f}
		}
		st.Canary = c
	}
	return st, kind
}

// Run generates and executes one history.
func (e *Sim) Run(ctx *core.Ctx, idx int) {
	r := ctx.Rand
	aff := e.P.Affinity == 1 || (e.P.Affinity == -1 && r.Intn(2) == 0)
	w := NewWorld(ctx, kit.CtlOpts{Affinity: aff, DefaultManual: r.Intn(5) == 0})
	maxN := e.P.MaxNodes
	if maxN < 3 {
		maxN = 6
	}
	nNodes := 2 + r.Intn(maxN-1)
	if e.P.Big {
		nNodes = 25 + r.Intn(80)
	}
	for i := 0; i < nNodes; i++ {
		w.AddNode(genNode(r, fmt.Sprintf("n%d", i)))
	}
	if e.Prop == "C11" {
		// C11 judges the safety rules of the other properties whatever fails in between
		w.Mon.RemapSafetyTo = "C11"
	}
	if e.P.PodFaults > 0 || e.P.EDSFaults > 0 || e.P.RSFaults > 0 || e.P.ReadFaults > 0 {
		fr := rand.New(rand.NewSource(r.Int63()))
		pf, ef, rf, lf := e.P.PodFaults, e.P.EDSFaults, e.P.RSFaults, e.P.ReadFaults
		w.S.Fault = func(c *simapi.Call) simapi.FaultKind {
			if w.Coop || w.faultsSuspended > 0 {
				return simapi.NoFault
			}
			if lf > 0 && c.Verb == "list" && strings.HasSuffix(c.Actor, "-controller") && fr.Float64() < lf {
				ctx.Count("sim.faults.list-rejected")
				return simapi.Reject
			}
			if c.Kind == simapi.KindPod && (c.Verb == "create" || c.Verb == "delete") && fr.Float64() < pf {
				// refused, or carried out with the answer lost (the pod exists / is gone although the call failed)
				if fr.Intn(3) == 0 {
					ctx.Count("sim.faults.pod-call-answer-lost")
					return simapi.LostReply
				}
				ctx.Count("sim.faults.pod-call-rejected")
				return simapi.Reject
			}
			if c.Kind == simapi.KindERS && (c.Verb == "create" || c.Verb == "delete") && c.Actor == "eds-controller" && fr.Float64() < rf {
				return []simapi.FaultKind{simapi.Reject, simapi.LostReply}[fr.Intn(2)]
			}
			if c.Kind == simapi.KindEDS && c.IsWrite() && c.Actor == "eds-controller" && fr.Float64() < ef {
				return []simapi.FaultKind{simapi.Reject, simapi.LostReply}[fr.Intn(2)]
			}
			return simapi.NoFault
		}
	}
	sh := genShape(r)
	strat, ckind := genStrategy(r, e.P)
	type edsRef struct{ ns, name string }
	var refs []edsRef
	mk := func(ns, name string) {
		ed := &v1.ExtendedDaemonSet{ObjectMeta: metav1.ObjectMeta{Namespace: ns, Name: name}}
		ed.Spec.Template = sh.tpl("A")
		ed.Spec.Strategy = *strat.DeepCopy()
		if r.Float64() < e.P.OldDS && len(refs) == 0 {
			var on []string
			for _, n := range kit.Nodes(w.S) {
				if oracle.Eligible(n, &ed.Spec.Template.Spec) && r.Intn(4) != 0 {
					on = append(on, n.Name)
				}
			}
			w.NewOldDaemonSet(ns, "old-agent", map[string]string{"app": "old-agent"}, on)
			ed.Annotations = map[string]string{v1.ExtendedDaemonSetOldDaemonsetAnnotationKey: "old-agent"}
			if e.P.MultiEDS && r.Intn(2) == 0 {
				w.NewLookalikePod(ns, "old-agent", map[string]string{"app": "old-agent"}, fmt.Sprintf("n%d", r.Intn(2)))
			}
		}
		if e.P.MultiEDS && len(refs) == 0 && r.Intn(3) == 0 {
			// a manifest shaped like a DaemonSet's: spec.selector repeats the pod template's labels
			ed.Spec.Selector = &metav1.LabelSelector{MatchLabels: map[string]string{"app": "agent"}}
		}
		if sh.Exported {
			// ... and the manifest itself was derived from a generated object (PodTemplate, replica set), which carries the
			// hash of the template it was generated from in its own annotations
			if ed.Annotations == nil {
				ed.Annotations = map[string]string{}
			}
			ed.Annotations[v1.MD5ExtendedDaemonSetAnnotationKey] = "0123456789abcdef0123456789abcdef"
		}
		w.CreateEDS(ed)
		refs = append(refs, edsRef{ns, name})
	}
	mk("ns1", "foo")
	if e.P.Overrides > 0 && !e.P.MultiEDS {
		w.overridesSetup(r, "ns1", "foo")
	}
	if e.P.MultiEDS {
		if r.Intn(3) == 0 {
			// the pod template of "bar" carries the reserved name label with the value of the OTHER
			// ExtendedDaemonSet (copied from a dump of one of its pods): the controller's own value must win
			w.TplLabels = map[string]map[string]string{"ns1/bar": {v1.ExtendedDaemonSetNameLabelKey: "foo", v1.ExtendedDaemonSetReplicaSetNameLabelKey: "foo-copied"}}
		}
		switch r.Intn(5) {
		case 4:
			// a second ExtendedDaemonSet of the namespace whose name starts with the first one's name and a
			// dash, like the names of the first one's replica sets and pods do
			mk("ns1", "foo-v2")
		case 0:
			mk("ns2", "foo")
		case 1:
			mk("ns1", "bar")
		case 2:
			mk("ns2", "foo")
			mk("ns1", "bar")
		case 3:
			// two ExtendedDaemonSets of one namespace whose (valid, <= 253 characters) names only differ
			// after the 63rd character: anything that shortens a name to fit a label value confuses them
			long := strings.Repeat("agent-with-a-very-long-name-", 3)[:63]
			mk("ns1", long+"-a")
			mk("ns1", long+"-b")
		}
		// unrelated pods and a DaemonSet with overlapping labels
		up := &corev1.Pod{ObjectMeta: metav1.ObjectMeta{Namespace: "ns3", Name: "unrelated-1", Labels: map[string]string{v1.ExtendedDaemonSetNameLabelKey: "foo", kit.MarkerLabel: "unrelated"}}, Spec: corev1.PodSpec{NodeName: "n0", Containers: []corev1.Container{{Name: "main", Image: "x"}}}}
		up.Status.Phase = corev1.PodRunning
		w.S.Inject(up)
		up2 := &corev1.Pod{ObjectMeta: metav1.ObjectMeta{Namespace: "ns1", Name: "unrelated-2", Labels: map[string]string{"app": "agent", kit.MarkerLabel: "unrelated"}}, Spec: corev1.PodSpec{NodeName: "n1", Containers: []corev1.Container{{Name: "main", Image: "x"}}}}
		up2.Status.Phase = corev1.PodRunning
		w.S.Inject(up2)
		// a hand-made debug copy of a daemon pod: every label of the first template, no name label, no owner
		up3 := &corev1.Pod{ObjectMeta: metav1.ObjectMeta{Namespace: "ns1", Name: "unrelated-3-debug-copy", Labels: copyMap(kit.Tpl("A").Labels)}, Spec: corev1.PodSpec{NodeName: "n0", Containers: []corev1.Container{{Name: "main", Image: "img:A"}}}}
		up3.Status.Phase = corev1.PodRunning
		up3.Status.Conditions = []corev1.PodCondition{kit.ReadyCond(true, w.Now())}
		w.S.Inject(up3)
		if r.Intn(2) == 0 {
			w.NewOldDaemonSet("ns2", "old-agent", map[string]string{"app": "old-agent"}, []string{"n0"})
		}
		if e.P.Overrides > 0 {
			// overrides and settings of each ExtendedDaemonSet: those of one must never reach the pods of another
			for _, ref := range refs {
				w.overridesSetup(r, ref.ns, ref.name)
			}
		}
	}
	desc := map[string]any{"nodes": nNodes, "canary": ckind, "affinityMode": aff, "shape": fmt.Sprintf("sel=%v aff=%v tol=%d", sh.Selector, sh.Affinity != nil, len(sh.Tolerations)),
		"maxUnavailable": strat.RollingUpdate.MaxUnavailable.String(), "eds": refs}
	// initial deployment: a few cooperative rounds (sometimes cut short: partial rollout)
	w.Coop = true
	initRounds := r.Intn(2*nNodes + 6)
	for i := 0; i < initRounds; i++ {
		w.Round(11 * time.Second)
	}
	w.Coop = false
	edits := map[string]int{}
	nextTpl := map[string]int{}
	if e.P.Nested > 0 {
		w.Mode = "N"
		w.EnableNested(e.P.Nested, func(outer string) {
			ref := refs[r.Intn(len(refs))]
			e.nestedAction(w, r, outer, ref.ns, ref.name, sh, edits, nextTpl)
		})
	}
	// hostile phase
	delStep := -1
	if e.P.MultiEDS {
		delStep = r.Intn(e.P.Steps * 3) // in a third of the histories one ExtendedDaemonSet is deleted half-way
	}
	for step := 0; step < e.P.Steps; step++ {
		if step == delStep {
			// the user deletes an ExtendedDaemonSet that has a namesake in another namespace; the garbage collector
			// removes what it owned; its controller is told (a reconcile request for an object that is gone)
			for i := 1; i < len(refs); i++ {
				twin := false
				for j := range refs {
					if j != i && refs[j].name == refs[i].name && refs[j].ns != refs[i].ns {
						twin = true
					}
				}
				if !twin {
					continue
				}
				gone := refs[i]
				w.DeleteEDSCascade(gone.ns, gone.name)
				refs = append(refs[:i:i], refs[i+1:]...)
				w.Reconcile("eds", gone.ns, gone.name)
				w.Reconcile("podtemplate", gone.ns, gone.name)
				ctx.Count("C12.extendeddaemonsets-deleted-next-to-a-namesake")
				break
			}
		}
		ref := refs[r.Intn(len(refs))]
		e.action(w, r, ref.ns, ref.name, sh, edits, nextTpl)
		if step%7 == 0 {
			e.observeState(w, ref.ns, ref.name)
		}
	}
	desc["steps"] = w.Steps
	if e.P.CanarySteady {
		for _, ref := range refs {
			w.CanarySteadyState(ref.ns, ref.name)
			w.CanaryUnresponsiveNode(ref.ns, ref.name)
		}
	}
	if e.P.Converge {
		for _, ref := range refs {
			var res ConvergeResult
			if e.P.EventDriven {
				res = w.ConvergeE(ref.ns, ref.name, 1+edits[ref.ns+"/"+ref.name])
			} else {
				res = w.Converge(ref.ns, ref.name, 1+edits[ref.ns+"/"+ref.name])
			}
			desc["convergence:"+ref.ns+"/"+ref.name] = fmt.Sprintf("%+v", res)
			if e.P.Retention && (res.Resolution == "kubectl-fail" || res.Resolution == "already-failed") && res.Reached {
				w.RetentionPhase(ref.ns, ref.name)
			}
		}
	}
	tr := w.Trace
	if len(tr) > 25 {
		tr = tr[:25]
	}
	desc["trace_head"] = tr
	if idx%3 == 0 {
		ctx.Sample(desc)
	}
}

// observeState records the abstract cluster state for distinct-state accounting.
func (e *Sim) observeState(w *World, ns, name string) {
	ed := kit.GetEDS(w.S, ns, name)
	if ed == nil {
		return
	}
	perNode := map[string]string{}
	for _, p := range w.DaemonPods(ns, name) {
		perNode[kit.NodeOfPod(p)] += fmt.Sprintf("%s%v%v%s;", kit.MarkerOfPod(p), kit.IsReady(p), p.DeletionTimestamp != nil, p.Status.Phase)
	}
	key := fmt.Sprintf("%s|%v|%s|", ed.Status.State, ed.Status.Canary != nil, kit.MarkerOfTemplate(&ed.Spec.Template))
	for _, n := range w.SortedNodeNames() {
		key += perNode[n] + "|"
	}
	for _, k := range []string{v1.ExtendedDaemonSetRollingUpdatePausedAnnotationKey, v1.ExtendedDaemonSetRolloutFrozenAnnotationKey, v1.ExtendedDaemonSetCanaryPausedAnnotationKey} {
		key += ed.Annotations[k] + "|"
	}
	w.Ctx.Distinct("nontrivial", key)
}

func (e *Sim) action(w *World, r *rand.Rand, ns, name string, sh shape, edits map[string]int, nextTpl map[string]int) {
	e.actionFrom(w, r, ns, name, sh, edits, nextTpl, 0)
}

// envAction picks among the non-reconcile actions only.
func (e *Sim) envAction(w *World, r *rand.Rand, ns, name string, sh shape, edits map[string]int, nextTpl map[string]int) {
	e.actionFrom(w, r, ns, name, sh, edits, nextTpl, 4)
}

// actionFrom draws from the action table starting at index `from` (the first four entries are reconciles).
func (e *Sim) actionFrom(w *World, r *rand.Rand, ns, name string, sh shape, edits map[string]int, nextTpl map[string]int, from int) {
	p := e.P
	type act struct {
		w float64
		f func()
	}
	nodes := w.SortedNodeNames()
	pickNode := func() string {
		if len(nodes) == 0 {
			return ""
		}
		return nodes[r.Intn(len(nodes))]
	}
	acts := []act{
		{6, func() { w.Reconcile("eds", ns, name) }},
		{8, func() {
			var own []string
			for _, rs := range kit.RSs(w.S) {
				if rs.Namespace == ns {
					own = append(own, rs.Name)
				}
			}
			if len(own) > 0 {
				w.Reconcile("ers", ns, own[r.Intn(len(own))])
			}
		}},
		{1, func() { w.Reconcile("podtemplate", ns, name) }},
		{p.Burst, func() {
			// a burst of requests for one replica set at +0, +0.4s, freq-1s, freq
			var own []string
			for _, rs := range kit.RSs(w.S) {
				if rs.Namespace == ns {
					own = append(own, rs.Name)
				}
			}
			if len(own) == 0 {
				return
			}
			rsName := own[r.Intn(len(own))]
			freq := 10 * time.Second
			if ed := kit.GetEDS(w.S, ns, name); ed != nil && ed.Spec.Strategy.ReconcileFrequency != nil {
				freq = ed.Spec.Strategy.ReconcileFrequency.Duration
			}
			w.Reconcile("ers", ns, rsName)
			w.Reconcile("ers", ns, rsName)
			w.Advance(400 * time.Millisecond)
			w.Reconcile("ers", ns, rsName)
			if freq > time.Second+400*time.Millisecond {
				w.Advance(freq - time.Second - 400*time.Millisecond)
				w.Reconcile("ers", ns, rsName)
			}
			w.Advance(time.Second)
			w.Reconcile("ers", ns, rsName)
		}},
		{5, func() { w.KubeletStep() }},
		{5, func() {
			ds := []time.Duration{0, 400 * time.Millisecond, time.Second, 9 * time.Second, 10 * time.Second, 11 * time.Second, 30 * time.Second, 61 * time.Second, 2 * time.Minute, 5 * time.Minute, 11 * time.Minute}
			w.Advance(ds[r.Intn(len(ds))])
		}},
		{p.Edits, func() {
			k := ns + "/" + name
			nextTpl[k]++
			mk := stdTemplates[nextTpl[k]%len(stdTemplates)]
			if r.Intn(4) == 0 {
				mk = stdTemplates[r.Intn(len(stdTemplates))]
			}
			t := sh.tpl(mk)
			if r.Intn(6) == 0 { // eligibility-changing variant (distinct marker)
				t = sh.tpl(mk + "-sel")
				t.Spec.NodeSelector = map[string]string{"zone": "a"}
			}
			if r.Float64() < 0.125+p.Widen { // eligibility-widening variant: tolerates the "dedicated" taint the others do not
				t = sh.tpl(mk + "-tol")
				t.Spec.Tolerations = append(t.Spec.Tolerations, corev1.Toleration{Key: "dedicated", Operator: corev1.TolerationOpExists, Effect: corev1.TaintEffectNoSchedule})
			}
			if p.EnvOrder > 0 && r.Float64() < p.EnvOrder {
				// variants that differ only in the order of the env list (distinct templates)
				env := []corev1.EnvVar{{Name: "LOG", Value: "info"}, {Name: "ARGS", Value: "$(LOG)"}}
				if r.Intn(2) == 0 {
					env[0], env[1] = env[1], env[0]
				}
				t.Spec.Containers[0].Env = env
			}
			if r.Intn(14) == 0 && !p.MultiEDS {
				// instead of editing it, the user deletes the ExtendedDaemonSet (its replica sets, pods and PodTemplate are
				// garbage-collected) and creates it again under the same name with the new template: a new object, new uid,
				// generation 1 again - nothing the controller process remembers about the old one applies to it
				if old := kit.GetEDS(w.S, ns, name); old != nil && old.DeletionTimestamp == nil {
					fresh := &v1.ExtendedDaemonSet{ObjectMeta: metav1.ObjectMeta{Namespace: ns, Name: name, Labels: old.Labels}}
					fresh.Spec = *old.Spec.DeepCopy()
					fresh.Spec.Template = t
					w.DeleteEDSCascade(ns, name)
					if len(w.EDSKeys) > 0 {
						w.EDSKeys = w.EDSKeys[:len(w.EDSKeys)-1]
					}
					w.CreateEDS(fresh)
					w.Mon.OnTemplateEdit(ns, name)
					edits[k]++
					return
				}
			}
			if r.Intn(5) == 0 {
				// the user takes the edit back while its canary is in flight: spec.template is the active template again
				if inProgress, active, _ := w.CanaryInProgress(ns, name); inProgress && active != nil {
					t = *active.Spec.Template.DeepCopy()
					mk = kit.MarkerOfTemplate(&t)
				}
			}
			w.SetTemplate(ns, name, t)
			if r.Intn(4) == 0 {
				// like a chart upgrade: the metadata labels of the object change together with the template
				w.S.Mutate(simapi.KindEDS, ns, name, func(o client.Object) {
					l := o.GetLabels()
					if l == nil {
						l = map[string]string{}
					}
					l["helm.sh/chart"] = "agent-" + mk
					o.SetLabels(l)
				})
				w.tracef("user: label helm.sh/chart=agent-%s on %s/%s", mk, ns, name)
			}
			edits[k]++
		}},
		{p.Edits / 3, func() {
			// the user changes the number of canary replicas while a canary may be running
			reps := []intstr.IntOrString{intstr.FromInt(1), intstr.FromInt(2), intstr.FromInt(3), intstr.FromString("50%"), intstr.FromString("25%")}
			rep := reps[r.Intn(len(reps))]
			ok := false
			w.S.Mutate(simapi.KindEDS, ns, name, func(o client.Object) {
				if c := o.(*v1.ExtendedDaemonSet).Spec.Strategy.Canary; c != nil {
					c.Replicas = &rep
					ok = true
				}
			})
			if ok {
				w.tracef("user: set canary replicas of %s/%s to %s", ns, name, rep.String())
			}
		}},
		{p.Edits / 4, func() {
			// the user rewrites the strategy: drops the canary block (possibly during a canary), adds one,
			// or re-applies the manifest as originally written (defaulted fields absent again)
			switch r.Intn(3) {
			case 0:
				w.S.Mutate(simapi.KindEDS, ns, name, func(o client.Object) { o.(*v1.ExtendedDaemonSet).Spec.Strategy.Canary = nil })
				w.tracef("user: remove the canary strategy of %s/%s", ns, name)
			case 1:
				st, _ := genStrategy(r, Profile{CanaryProb: 1})
				w.S.Mutate(simapi.KindEDS, ns, name, func(o client.Object) { o.(*v1.ExtendedDaemonSet).Spec.Strategy.Canary = st.Canary })
				w.tracef("user: set a canary strategy on %s/%s", ns, name)
			default:
				w.S.Mutate(simapi.KindEDS, ns, name, func(o client.Object) {
					e := o.(*v1.ExtendedDaemonSet)
					e.Spec.Strategy.ReconcileFrequency = nil
					e.Spec.Strategy.RollingUpdate.MaxParallelPodCreation = nil
					e.Spec.Strategy.RollingUpdate.MaxPodSchedulerFailure = nil
					if c := e.Spec.Strategy.Canary; c != nil {
						c.AutoPause, c.AutoFail, c.NodeSelector = nil, nil, nil
					}
				})
				w.tracef("user: re-apply the original (undefaulted) strategy of %s/%s", ns, name)
			}
		}},
		{p.Edits / 3, func() {
			// the user edits one parameter of the strategy in place while a rollout or a canary may be running
			what := ""
			w.S.Mutate(simapi.KindEDS, ns, name, func(o client.Object) {
				e := o.(*v1.ExtendedDaemonSet)
				ru := &e.Spec.Strategy.RollingUpdate
				c := e.Spec.Strategy.Canary
				switch r.Intn(11) {
				case 8:
					// auto-pause or auto-fail switched off or on while a canary may be paused by it
					if c == nil {
						return
					}
					b := r.Intn(2) == 0
					if r.Intn(2) == 0 {
						if c.AutoPause == nil {
							c.AutoPause = &v1.ExtendedDaemonSetSpecStrategyCanaryAutoPause{}
						}
						c.AutoPause.Enabled = &b
						what = fmt.Sprintf("autoPause.enabled=%v", b)
					} else {
						if c.AutoFail == nil {
							c.AutoFail = &v1.ExtendedDaemonSetSpecStrategyCanaryAutoFail{}
						}
						c.AutoFail.Enabled = &b
						what = fmt.Sprintf("autoFail.enabled=%v", b)
					}
				case 9:
					// the canary node selector edited (or dropped) while canary nodes may already be selected
					if c == nil {
						return
					}
					switch r.Intn(4) {
					case 0:
						c.NodeSelector = nil
					case 1:
						c.NodeSelector = &metav1.LabelSelector{MatchLabels: map[string]string{"role": "agent"}}
					case 2:
						c.NodeSelector = &metav1.LabelSelector{MatchLabels: map[string]string{"zone": []string{"a", "b", "c"}[r.Intn(3)]}}
					case 3:
						c.NodeSelector = &metav1.LabelSelector{MatchExpressions: []metav1.LabelSelectorRequirement{{Key: "type", Operator: metav1.LabelSelectorOpDoesNotExist}}}
					}
					what = fmt.Sprintf("canary nodeSelector=%v", c.NodeSelector)
				case 10:
					// spec.selector (a node selector for this controller) set to something every simulated node carries, or dropped
					if e.Spec.Selector == nil {
						e.Spec.Selector = &metav1.LabelSelector{MatchLabels: map[string]string{"app": "agent"}}
					} else {
						e.Spec.Selector = nil
					}
					what = fmt.Sprintf("spec.selector=%v", e.Spec.Selector)
				case 0:
					mu := []intstr.IntOrString{intstr.FromInt(1), intstr.FromInt(2), intstr.FromString("50%"), intstr.FromString("100%")}[r.Intn(4)]
					ru.MaxUnavailable = &mu
					what = "maxUnavailable=" + mu.String()
				case 1:
					mp := []int32{1, 2, 250}[r.Intn(3)]
					ru.MaxParallelPodCreation = &mp
					what = fmt.Sprintf("maxParallelPodCreation=%d", mp)
				case 2:
					inc := []intstr.IntOrString{intstr.FromInt(1), intstr.FromInt(2), intstr.FromString("50%")}[r.Intn(3)]
					ru.SlowStartAdditiveIncrease = &inc
					what = "slowStartAdditiveIncrease=" + inc.String()
				case 3:
					f := []time.Duration{time.Second, 10 * time.Second}[r.Intn(2)]
					e.Spec.Strategy.ReconcileFrequency = &metav1.Duration{Duration: f}
					what = "reconcileFrequency=" + f.String()
				case 4:
					m := []intstr.IntOrString{intstr.FromInt(0), intstr.FromInt(1), intstr.FromString("25%")}[r.Intn(3)]
					ru.MaxPodSchedulerFailure = &m
					what = "maxPodSchedulerFailure=" + m.String()
				case 5:
					if c == nil {
						return
					}
					if c.ValidationMode == v1.ExtendedDaemonSetSpecStrategyCanaryValidationModeManual {
						c.ValidationMode = v1.ExtendedDaemonSetSpecStrategyCanaryValidationModeAuto
						c.Duration = &metav1.Duration{Duration: []time.Duration{30 * time.Second, 3 * time.Minute}[r.Intn(2)]}
						what = "validationMode=auto duration=" + c.Duration.Duration.String()
					} else {
						c.ValidationMode = v1.ExtendedDaemonSetSpecStrategyCanaryValidationModeManual
						c.Duration, c.NoRestartsDuration = nil, nil
						what = "validationMode=manual"
					}
				case 6:
					if c == nil || c.ValidationMode == v1.ExtendedDaemonSetSpecStrategyCanaryValidationModeManual {
						return
					}
					c.Duration = &metav1.Duration{Duration: []time.Duration{30 * time.Second, 3 * time.Minute, 10 * time.Minute}[r.Intn(3)]}
					what = "canary duration=" + c.Duration.Duration.String()
				case 7:
					if c == nil {
						return
					}
					if len(c.NodeAntiAffinityKeys) == 0 {
						c.NodeAntiAffinityKeys = []string{"zone"}
					} else {
						c.NodeAntiAffinityKeys = nil
					}
					what = fmt.Sprintf("nodeAntiAffinityKeys=%v", c.NodeAntiAffinityKeys)
				}
			})
			if what != "" {
				w.tracef("user: edit the strategy of %s/%s: %s", ns, name, what)
			}
		}},
		{p.Edits / 10, func() {
			// the user deletes one of the replica sets by hand (the garbage collector removes its pods)
			var own []string
			for _, rs := range kit.RSs(w.S) {
				if rs.Namespace == ns && rs.Labels[v1.ExtendedDaemonSetNameLabelKey] == name && rs.DeletionTimestamp == nil {
					own = append(own, rs.Name)
				}
			}
			if len(own) == 0 {
				return
			}
			victim := own[r.Intn(len(own))]
			_ = w.User.Delete(context.TODO(), &v1.ExtendedDaemonSetReplicaSet{ObjectMeta: metav1.ObjectMeta{Namespace: ns, Name: victim}})
			w.tracef("user: delete replica set %s/%s by hand", ns, victim)
		}},
		{p.Holds, func() {
			keys := []string{v1.ExtendedDaemonSetRollingUpdatePausedAnnotationKey, v1.ExtendedDaemonSetRolloutFrozenAnnotationKey, v1.ExtendedDaemonSetCanaryPausedAnnotationKey, v1.ExtendedDaemonSetCanaryUnpausedAnnotationKey}
			w.Annotate(ns, name, keys[r.Intn(len(keys))], []string{"true", "false", ""}[r.Intn(3)])
		}},
		{p.Commands, func() {
			cmds := []string{"canary-pause", "canary-unpause", "canary-validate", "canary-fail", "pause-rolling-update", "unpause-rolling-update", "freeze-rollout", "unfreeze-rollout"}
			_ = w.Kubectl(cmds[r.Intn(len(cmds))], ns, name)
		}},
		{p.Overrides, func() { w.overridesAction(r, ns, name) }},
		{p.Churn, func() {
			switch r.Intn(7) {
			case 6:
				// the node's own Ready condition changes (its kubelet stops posting, or posts NotReady) while the pods on it
				// keep their Ready condition: node health is not an input of this controller
				n := pickNode()
				if n != "" {
					st := []corev1.ConditionStatus{corev1.ConditionUnknown, corev1.ConditionFalse, corev1.ConditionTrue}[r.Intn(3)]
					w.MutateNode(n, "Ready="+string(st), func(nd *corev1.Node) {
						nd.Status.Conditions = []corev1.NodeCondition{{Type: corev1.NodeReady, Status: st, LastTransitionTime: metav1.NewTime(w.Now())}}
					})
				}
			case 5:
				// the node is being deleted but a finalizer keeps it: it is still there, still schedulable
				n := pickNode()
				if n != "" {
					w.MutateNode(n, "finalizer + delete (node stays, terminating)", func(nd *corev1.Node) { nd.Finalizers = []string{"example.com/node-hold"} })
					_ = w.User.Delete(context.TODO(), &corev1.Node{ObjectMeta: metav1.ObjectMeta{Name: n}})
				}
			case 0:
				w.AddNode(genNode(r, fmt.Sprintf("x%d", r.Intn(4))))
			case 1:
				if len(nodes) > 2 {
					w.RemoveNode(pickNode())
				}
			case 2:
				if r.Intn(3) == 0 {
					w.MutateNode(pickNode(), "taint draining=x:NoExecute", func(n *corev1.Node) {
						n.Spec.Taints = append(n.Spec.Taints, corev1.Taint{Key: "draining", Value: "x", Effect: corev1.TaintEffectNoExecute})
					})
				} else {
					w.MutateNode(pickNode(), "taint dedicated=infra:NoSchedule", func(n *corev1.Node) {
						n.Spec.Taints = append(n.Spec.Taints, corev1.Taint{Key: "dedicated", Value: "infra", Effect: corev1.TaintEffectNoSchedule})
					})
				}
			case 3:
				w.MutateNode(pickNode(), "untaint", func(n *corev1.Node) { n.Spec.Taints = nil })
			case 4:
				w.MutateNode(pickNode(), "relabel role/type", func(n *corev1.Node) {
					if n.Labels["role"] == "agent" {
						delete(n.Labels, "role")
					} else {
						n.Labels["role"] = "agent"
					}
				})
			}
		}},
		{p.OldDS * 0.7, func() {
			// the user calls the migration off: without the annotation the pods of the old DaemonSet are
			// nobody's business any more
			e0 := kit.GetEDS(w.S, ns, name)
			if e0 == nil || e0.Annotations[v1.ExtendedDaemonSetOldDaemonsetAnnotationKey] == "" {
				return
			}
			w.S.Mutate(simapi.KindEDS, ns, name, func(o client.Object) {
				delete(o.(*v1.ExtendedDaemonSet).Annotations, v1.ExtendedDaemonSetOldDaemonsetAnnotationKey)
			})
			w.tracef("user: remove the old-daemonset annotation of %s/%s", ns, name)
		}},
		{p.OldDS * 0.7, func() {
			// the user deletes the old DaemonSet with --cascade=orphan while the annotation still names it: its pods
			// stay, owned by nobody, and are nobody's business any more
			e0 := kit.GetEDS(w.S, ns, name)
			if e0 == nil || e0.Annotations[v1.ExtendedDaemonSetOldDaemonsetAnnotationKey] == "" {
				return
			}
			old := e0.Annotations[v1.ExtendedDaemonSetOldDaemonsetAnnotationKey]
			if w.S.Peek(simapi.KindDS, ns, old) == nil {
				return
			}
			for _, p := range kit.Pods(w.S) {
				if p.Namespace != ns {
					continue
				}
				for _, o := range p.OwnerReferences {
					if o.Kind == "DaemonSet" && o.Name == old {
						w.S.Mutate(simapi.KindPod, ns, p.Name, func(o client.Object) { o.SetOwnerReferences(nil) })
					}
				}
			}
			w.S.Remove(simapi.KindDS, ns, old)
			w.tracef("user: delete the old DaemonSet %s/%s with --cascade=orphan (annotation kept)", ns, old)
		}},
		{map[bool]float64{true: 0.4, false: 0}[p.MultiEDS], func() {
			// the PodTemplate of this ExtendedDaemonSet is restored from an export (kubectl apply of a saved manifest):
			// same content, same hash annotation, ownerReferences stripped - still this ExtendedDaemonSet's and nobody else's
			if w.S.Peek(simapi.KindPodTpl, ns, name) == nil {
				return
			}
			w.S.Mutate(simapi.KindPodTpl, ns, name, func(o client.Object) { o.SetOwnerReferences(nil) })
			w.tracef("user: PodTemplate %s/%s restored from an export (ownerReferences stripped)", ns, name)
		}},
		{0.08, func() {
			// the ExtendedDaemonSet is deleted in the foreground and something holds the finalizer: the object,
			// its replica sets and its pods are all still there, and it is still the controller's job
			e0 := kit.GetEDS(w.S, ns, name)
			if e0 == nil || e0.DeletionTimestamp != nil {
				return
			}
			w.S.Mutate(simapi.KindEDS, ns, name, func(o client.Object) {
				o.SetFinalizers([]string{"foregroundDeletion"})
			})
			_ = w.User.Delete(context.TODO(), &v1.ExtendedDaemonSet{ObjectMeta: metav1.ObjectMeta{Namespace: ns, Name: name}})
			w.tracef("user: delete %s/%s in the foreground (finalizer held: the object stays, terminating)", ns, name)
		}},
		{p.Hostile, func() {
			n := pickNode()
			if n == "" {
				return
			}
			b := &NodeBehaviour{}
			switch r.Intn(9) {
			case 0:
				b.StuckUnscheduled = true
			case 1:
				b.WaitingReason = []string{"ImagePullBackOff", "CreateContainerConfigError", "CrashLoopBackOff"}[r.Intn(3)]
			case 2:
				b.Restarts = int32(1 + r.Intn(7))
			case 3:
				b.NotReady = true
			case 4:
				b.StuckTerminating = true
			case 5:
				b.PhaseOverride = corev1.PodFailed
				b.FailReason = []string{"", "OutOfcpu", "NodeAffinity", "OutOfpods"}[r.Intn(4)]
			case 6:
				b.PhaseOverride = corev1.PodUnknown
			case 7:
				b.SlowStart = 90 * time.Second
			case 8:
				b = nil // back to normal
			}
			if b == nil {
				delete(w.Behav, n)
			} else {
				w.Behav[n] = b
			}
			w.tracef("env: node %s behaviour %+v", n, b)
		}},
		{p.DupPods, func() {
			pods := w.DaemonPods(ns, name)
			if len(pods) == 0 {
				return
			}
			src := pods[r.Intn(len(pods))]
			if r.Intn(2) == 0 {
				w.DeletePod(src)
				return
			}
			// a hand-made duplicate of an existing daemon pod (same labels/owner), maybe unscheduled
			dup := src.DeepCopy()
			dup.ObjectMeta = metav1.ObjectMeta{Namespace: src.Namespace, GenerateName: "dup-", Labels: src.Labels, Annotations: src.Annotations, OwnerReferences: src.OwnerReferences}
			dup.Status = corev1.PodStatus{}
			if r.Intn(3) == 0 {
				// an unscheduled duplicate is only meaningful when it is still pinned to the node by affinity
				probe := dup.DeepCopy()
				probe.Spec.NodeName = ""
				if kit.NodeOfPod(probe) != "" {
					dup.Spec.NodeName = ""
				}
			}
			if err := w.User.Create(nil, dup); err == nil {
				w.tracef("user: hand-made duplicate %s of %s on %s", dup.Name, src.Name, kit.NodeOfPod(src))
			}
		}},
		{0.12, func() {
			// the controller process restarts between two reconciles: every reconciler instance is rebuilt, whatever the
			// old ones kept in memory (the Failed-pod deletion back-off, anything a change adds) is gone
			if w.nestDepth > 0 {
				return
			}
			w.Ctl.Rebuild()
			w.Ctx.Count("sim.controller-restarts")
			w.tracef("*** controller process restarted between reconciles (in-memory state lost)")
		}},
	}
	acts = acts[from:]
	total := 0.0
	for _, a := range acts {
		total += a.w
	}
	x := r.Float64() * total
	for _, a := range acts {
		if x < a.w {
			a.f()
			return
		}
		x -= a.w
	}
}

// nestedAction: what another actor does while a reconcile of `outer` is suspended at an API call.
func (e *Sim) nestedAction(w *World, r *rand.Rand, outer, ns, name string, sh shape, edits map[string]int, nextTpl map[string]int) {
	switch k := r.Intn(10); {
	case k < 3:
		w.KubeletStep()
	case k < 4:
		w.Advance([]time.Duration{400 * time.Millisecond, time.Second, 11 * time.Second, 61 * time.Second}[r.Intn(4)])
	case k < 7:
		// one complete reconcile of a different controller
		switch outer {
		case "ers":
			if r.Intn(3) == 0 {
				w.Reconcile("podtemplate", ns, name)
			} else {
				w.Reconcile("eds", ns, name)
			}
		default:
			var own []string
			for _, rs := range kit.RSs(w.S) {
				if rs.Namespace == ns {
					own = append(own, rs.Name)
				}
			}
			if len(own) > 0 {
				w.Reconcile("ers", ns, own[r.Intn(len(own))])
			}
		}
	default:
		// a user / environment action from the ordinary action table, excluding reconciles
		saved := e.P
		p2 := e.P
		p2.Burst = 0
		e.P = p2
		e.envAction(w, r, ns, name, sh, edits, nextTpl)
		e.P = saved
	}
}
