package sim

import (
	"fmt"
	"os"
	"sort"
	"strings"
	"sync"
	"time"

	autoscalingv1 "k8s.io/api/autoscaling/v1"
	corev1 "k8s.io/api/core/v1"
	"k8s.io/apimachinery/pkg/api/resource"
	metav1 "k8s.io/apimachinery/pkg/apis/meta/v1"

	v1 "github.com/DataDog/extendeddaemonset/api/v1alpha1"

	"sigs.k8s.io/controller-runtime/pkg/client"

	"vh/core"
	"vh/kit"
	"vh/simapi"
)

// C11 is the fault-enumeration engine (F mode): every API call index of every corpus
// scenario x {reject, lost-reply, stop-before, stop-after}; pairs in the thorough tier.
type C11 struct {
	mu   sync.Mutex
	base map[string]*c11Base
	plan []c11Case
	tier string
}

type c11Base struct {
	// keys[k]: (invocation, signature, occurrence within that invocation) of the k-th faultable call of the
	// failure-free run. Faults are armed by key, not by global position: calls that a sync issues in parallel
	// (pod creations, deletions) reach the seam in an order the scheduler decides, and a position counted over
	// all calls would name a different call from one run to the next.
	keys  []string
	calls []string // signature of each faultable call of the failure-free run
	final string
	// maxLive: the largest number of live pods one node ever held in the failure-free run
	maxLive int
}

type c11Case struct {
	script string
	k1, k2 int // 1-based call indexes (k2 = 0: single fault)
	f1, f2 simapi.FaultKind
}

type c11Script struct {
	name string
	run  func(w *World)
}

var faultKinds = []simapi.FaultKind{simapi.Reject, simapi.LostReply, simapi.StopBefore, simapi.StopAfter}

func (e *C11) Name() string { return "fault.c11" }
func (e *C11) Rule() string {
	return "corpus = first deployment, rolling update, canary start (also with a percentage of the nodes a canary node selector matches), promotion by time, promotion by validate, failure and rollback (with and without canary pods), node removal, settings change, migration from a DaemonSet (also a second one after the ExtendedDaemonSet and the DaemonSet were deleted and re-created under the same names); the failure-free run of each scenario is recorded, then re-run once per (API call index k, fault kind) with the fault armed at the k-th call issued by a controller: both tiers = every call x 4 kinds, thorough adds 20000 seeded pairs; stop faults void the rest of the invocation and all reconciler instances are rebuilt with empty in-memory state; all safety monitors run at every step and the final abstract state after failure-free recovery rounds is compared with the failure-free run's; non-trivial = distinct (scenario, call signature, fault kind) tuples"
}

func c11Settle(w *World, rounds int) { c11SettleStep(w, rounds, 2*time.Second) }

func c11SettleStep(w *World, rounds int, step time.Duration) {
	for i := 0; i < rounds; i++ {
		w.Advance(step)
		w.reconcileAllOrdered()
		w.KubeletStep()
		w.KubeletStep()
	}
}

// reconcileAllOrdered reconciles everything in a fixed order (scripts must be deterministic).
func (w *World) reconcileAllOrdered() {
	for _, o := range w.S.All(simapi.KindSetting) {
		w.Reconcile("setting", o.GetNamespace(), o.GetName())
	}
	for _, o := range w.S.All(simapi.KindEDS) {
		w.Reconcile("eds", o.GetNamespace(), o.GetName())
		w.Reconcile("podtemplate", o.GetNamespace(), o.GetName())
	}
	for _, o := range w.S.All(simapi.KindERS) {
		w.Reconcile("ers", o.GetNamespace(), o.GetName())
	}
}

func c11EDS(canary *v1.ExtendedDaemonSetSpecStrategyCanary) *v1.ExtendedDaemonSet {
	ed := &v1.ExtendedDaemonSet{ObjectMeta: metav1.ObjectMeta{Namespace: "ns1", Name: "foo"}}
	ed.Spec.Template = kit.Tpl("A")
	ed.Spec.Strategy.ReconcileFrequency = &metav1.Duration{Duration: time.Second}
	ed.Spec.Strategy.RollingUpdate.MaxUnavailable = kit.IS(2)
	ed.Spec.Strategy.RollingUpdate.SlowStartAdditiveIncrease = kit.IS(2)
	ed.Spec.Strategy.RollingUpdate.SlowStartIntervalDuration = &metav1.Duration{Duration: time.Second}
	ed.Spec.Strategy.Canary = canary
	return ed
}

func c11Nodes(w *World, n int) {
	for i := 0; i < n; i++ {
		w.AddNode(kit.Node(fmt.Sprintf("n%d", i), map[string]string{"zone": []string{"a", "b"}[i%2], "role": "agent"}))
	}
}

// deployQuiet brings template A up without faults being counted (faults are armed by call
// index, so the prefix is part of the enumeration only for "first-deployment").
func c11Scripts() []c11Script {
	autoCanary := func() *v1.ExtendedDaemonSetSpecStrategyCanary {
		return &v1.ExtendedDaemonSetSpecStrategyCanary{Replicas: kit.IS(1), ValidationMode: v1.ExtendedDaemonSetSpecStrategyCanaryValidationModeAuto,
			Duration: &metav1.Duration{Duration: 20 * time.Second}, NoRestartsDuration: &metav1.Duration{Duration: 2 * time.Second}}
	}
	manualCanary := func() *v1.ExtendedDaemonSetSpecStrategyCanary {
		return &v1.ExtendedDaemonSetSpecStrategyCanary{Replicas: kit.IS(1), ValidationMode: v1.ExtendedDaemonSetSpecStrategyCanaryValidationModeManual}
	}
	return []c11Script{
		{"first-deployment", func(w *World) {
			c11Nodes(w, 4)
			w.CreateEDS(c11EDS(nil))
			c11Settle(w, 6)
		}},
		{"first-deployment-at-scale", func(w *World) {
			// 45 nodes and a slow start that allows all of them at once: one sync with dozens of parallel creations
			c11Nodes(w, 45)
			ed := c11EDS(nil)
			ed.Spec.Strategy.RollingUpdate.SlowStartAdditiveIncrease = kit.IS(100)
			w.CreateEDS(ed)
			c11Settle(w, 5)
		}},
		{"rolling-update", func(w *World) {
			c11Nodes(w, 4)
			w.CreateEDS(c11EDS(nil))
			w.quiet(func() { c11Settle(w, 7) })
			w.SetTemplate("ns1", "foo", kit.Tpl("B"))
			c11Settle(w, 6)
		}},
		{"canary-start", func(w *World) {
			c11Nodes(w, 4)
			w.CreateEDS(c11EDS(manualCanary()))
			w.quiet(func() { c11Settle(w, 7) })
			w.SetTemplate("ns1", "foo", kit.Tpl("B"))
			c11Settle(w, 4)
		}},
		{"canary-start-with-a-percentage-of-selected-nodes", func(w *World) {
			// replicas as a percentage and a canary node selector: the selection lists the nodes twice (those the selector
			// matches, and all of them as the base of the percentage); the active replica set is throttled (10s) while the
			// canary replica set publishes its status at once, so for a few reconciles status.desired counts the canary
			// nodes twice and the selection is re-evaluated
			c11Nodes(w, 10)
			c := manualCanary()
			c.Replicas = kit.PS("30%")
			c.NodeSelector = &metav1.LabelSelector{MatchLabels: map[string]string{"role": "agent"}}
			w.CreateEDS(c11EDS(c))
			w.quiet(func() { c11Settle(w, 9) })
			w.S.Mutate(simapi.KindEDS, "ns1", "foo", func(o client.Object) {
				o.(*v1.ExtendedDaemonSet).Spec.Strategy.ReconcileFrequency = &metav1.Duration{Duration: 10 * time.Second}
			})
			w.SetTemplate("ns1", "foo", kit.Tpl("B"))
			w.Advance(2 * time.Second)
			w.Reconcile("eds", "ns1", "foo") // creates the replica set of B
			w.Reconcile("eds", "ns1", "foo") // selects the canary nodes
			w.Advance(10 * time.Second)
			for _, rs := range kit.RSs(w.S) {
				if kit.MarkerOfTemplate(&rs.Spec.Template) == "B" {
					w.Reconcile("ers", "ns1", rs.Name) // the canary replica set publishes its status first
				}
			}
			w.Reconcile("eds", "ns1", "foo") // status.desired now counts the canary nodes twice
			w.Reconcile("eds", "ns1", "foo") // ... which makes this reconcile evaluate the selection again
			w.Reconcile("eds", "ns1", "foo")
			c11Settle(w, 3)
		}},
		{"promotion-by-time", func(w *World) {
			c11Nodes(w, 4)
			w.CreateEDS(c11EDS(autoCanary()))
			w.quiet(func() { c11Settle(w, 7) })
			w.SetTemplate("ns1", "foo", kit.Tpl("B"))
			w.quiet(func() { c11Settle(w, 4) })
			w.Advance(25 * time.Second)
			c11Settle(w, 6)
		}},
		{"promotion-by-validate", func(w *World) {
			c11Nodes(w, 4)
			w.CreateEDS(c11EDS(manualCanary()))
			w.quiet(func() { c11Settle(w, 7) })
			w.SetTemplate("ns1", "foo", kit.Tpl("B"))
			w.quiet(func() { c11Settle(w, 4) })
			_ = w.Kubectl("canary-validate", "ns1", "foo")
			c11Settle(w, 6)
		}},
		{"failure-and-rollback", func(w *World) {
			c11Nodes(w, 4)
			w.CreateEDS(c11EDS(manualCanary()))
			w.quiet(func() { c11Settle(w, 7) })
			w.SetTemplate("ns1", "foo", kit.Tpl("B"))
			w.quiet(func() { c11Settle(w, 4) })
			_ = w.Kubectl("canary-fail", "ns1", "foo")
			c11Settle(w, 6)
		}},
		{"failure-and-rollback-of-a-paused-canary-without-pods", func(w *World) {
			// nothing but the rollback itself changes the status here, so a rollback that is only
			// retried "when the status changes again" never completes after a fault
			c11Nodes(w, 4)
			w.CreateEDS(c11EDS(manualCanary()))
			w.quiet(func() { c11Settle(w, 7) })
			w.SetTemplate("ns1", "foo", kit.Tpl("B"))
			w.quiet(func() {
				w.Reconcile("eds", "ns1", "foo")
				w.Reconcile("eds", "ns1", "foo")
				w.Reconcile("eds", "ns1", "foo")
				_ = w.Kubectl("canary-pause", "ns1", "foo")
				c11Settle(w, 3)
			})
			_ = w.Kubectl("canary-fail", "ns1", "foo")
			c11Settle(w, 5)
		}},
		{"node-removal", func(w *World) {
			c11Nodes(w, 5)
			w.CreateEDS(c11EDS(nil))
			w.quiet(func() { c11Settle(w, 8) })
			w.RemoveNode("n1")
			w.MutateNode("n2", "taint dedicated=infra:NoSchedule", func(n *corev1.Node) {
				n.Spec.Taints = append(n.Spec.Taints, corev1.Taint{Key: "dedicated", Value: "infra", Effect: corev1.TaintEffectNoSchedule})
			})
			c11Settle(w, 4)
		}},
		{"settings-change", func(w *World) {
			c11Nodes(w, 4)
			w.CreateEDS(c11EDS(nil))
			w.quiet(func() { c11Settle(w, 7) })
			st := &v1.ExtendedDaemonsetSetting{ObjectMeta: metav1.ObjectMeta{Namespace: "ns1", Name: "big"}}
			st.Spec.Reference = &autoscalingv1.CrossVersionObjectReference{Kind: "ExtendedDaemonset", Name: "foo"}
			st.Spec.NodeSelector = metav1.LabelSelector{MatchLabels: map[string]string{"zone": "a"}}
			st.Spec.Containers = []v1.ExtendedDaemonsetSettingContainerSpec{{Name: "main", Resources: corev1.ResourceRequirements{Requests: corev1.ResourceList{"cpu": resource.MustParse("2")}}}}
			_ = w.User.Create(nil, st)
			w.tracef("user: create setting big (zone=a, cpu 2)")
			c11Settle(w, 6)
		}},
		{"second-migration-after-re-creation-under-the-same-name", func(w *World) {
			// a finished migration whose old DaemonSet was deleted, backed out (ExtendedDaemonSet deleted, DaemonSet
			// redeployed) and started again under the same names while the same controller process keeps running:
			// whatever the process remembers from the first time must not decide the second
			c11Nodes(w, 4)
			w.NewOldDaemonSet("ns1", "old-agent", map[string]string{"app": "old-agent"}, []string{"n0", "n1", "n2"})
			ed := c11EDS(nil)
			ed.Annotations = map[string]string{v1.ExtendedDaemonSetOldDaemonsetAnnotationKey: "old-agent"}
			w.CreateEDS(ed.DeepCopy())
			w.quiet(func() {
				c11Settle(w, 9)
				w.S.Remove(simapi.KindDS, "ns1", "old-agent")
				w.tracef("user: delete the old DaemonSet ns1/old-agent (migration finished)")
				c11Settle(w, 3)
				w.DeleteEDSCascade("ns1", "foo")
				c11Settle(w, 2)
				w.NewOldDaemonSet("ns1", "old-agent", map[string]string{"app": "old-agent"}, []string{"n0", "n1", "n2"})
			})
			w.CreateEDS(ed.DeepCopy())
			c11Settle(w, 8)
		}},
		{"migration", func(w *World) {
			c11Nodes(w, 4)
			w.NewOldDaemonSet("ns1", "old-agent", map[string]string{"app": "old-agent"}, []string{"n0", "n1", "n2"})
			ed := c11EDS(nil)
			ed.Annotations = map[string]string{v1.ExtendedDaemonSetOldDaemonsetAnnotationKey: "old-agent"}
			w.CreateEDS(ed)
			c11Settle(w, 7)
		}},
	}
}

// quiet runs f with fault counting suspended (set-up phases that are not under enumeration).
func (w *World) quiet(f func()) {
	w.faultsSuspended++
	f()
	w.faultsSuspended--
}

// abstractFinal: the state that must not depend on the fault.
func (w *World) abstractFinal() string {
	var sb strings.Builder
	for _, k := range w.EDSKeys {
		e := kit.GetEDS(w.S, k[0], k[1])
		if e == nil {
			continue
		}
		activeMarker := ""
		var rsMarkers []string
		for _, rs := range kit.RSs(w.S) {
			if rs.Namespace == k[0] && rs.Labels[v1.ExtendedDaemonSetNameLabelKey] == k[1] {
				rsMarkers = append(rsMarkers, kit.MarkerOfTemplate(&rs.Spec.Template))
				if rs.Name == e.Status.ActiveReplicaSet {
					activeMarker = kit.MarkerOfTemplate(&rs.Spec.Template)
				}
			}
		}
		sort.Strings(rsMarkers)
		var conds []string
		for _, c := range e.Status.Conditions {
			if c.Status == corev1.ConditionTrue {
				conds = append(conds, string(c.Type))
			}
		}
		sort.Strings(conds)
		fmt.Fprintf(&sb, "eds %s/%s spec=%s active=%s canary=%v state=%s desired=%d current=%d ready=%d available=%d upToDate=%d conds=%v rs=%v\n", k[0], k[1],
			kit.MarkerOfTemplate(&e.Spec.Template), activeMarker, e.Status.Canary != nil, e.Status.State, e.Status.Desired, e.Status.Current, e.Status.Ready, e.Status.Available, e.Status.UpToDate, conds, rsMarkers)
		per := map[string][]string{}
		for _, p := range kit.Pods(w.S) {
			if p.Namespace != k[0] {
				continue
			}
			cpu := ""
			if len(p.Spec.Containers) > 0 {
				q := p.Spec.Containers[0].Resources.Requests["cpu"]
				cpu = q.String()
			}
			per[kit.NodeOfPod(p)] = append(per[kit.NodeOfPod(p)], fmt.Sprintf("%s/ready=%v/cpu=%s/canary-label=%v", kit.MarkerOfPod(p), kit.IsReady(p), cpu, p.Labels[v1.ExtendedDaemonSetReplicaSetCanaryLabelKey] != ""))
		}
		var nodes []string
		for n := range per {
			nodes = append(nodes, n)
		}
		sort.Strings(nodes)
		for _, n := range nodes {
			sort.Strings(per[n])
			fmt.Fprintf(&sb, "  node %s: %v\n", n, per[n])
		}
	}
	for _, o := range w.S.All(simapi.KindSetting) {
		s := o.(*v1.ExtendedDaemonsetSetting)
		fmt.Fprintf(&sb, "setting %s/%s status=%s\n", s.Namespace, s.Name, s.Status.Status)
	}
	return sb.String()
}

// runScript executes one script with the given faults (k = 0: none); returns the call
// signatures of the counted calls, the final abstract state, and what was hit.
func (e *C11) runScript(ctx *core.Ctx, sc c11Script, k1 int, f1 simapi.FaultKind, k2 int, f2 simapi.FaultKind, judge bool) ([]string, string, []string, *World) {
	w := NewWorld(ctx, kit.CtlOpts{})
	w.Mode = "F"
	w.Coop = true
	w.Mon.Faulted = k1 > 0
	if judge {
		w.Mon.RemapSafetyTo = "C11"
	} else {
		w.Mon.Mute = true
	}
	var calls []string
	var hit []string
	n := 0
	k1Key, k2Key := "", ""
	if b := e.base[sc.name]; b != nil {
		if k1 > 0 && k1 <= len(b.keys) {
			k1Key = b.keys[k1-1]
		}
		if k2 > 0 && k2 <= len(b.keys) {
			k2Key = b.keys[k2-1]
		}
	}
	occ := map[string]int{}
	w.S.Fault = func(c *simapi.Call) simapi.FaultKind {
		if w.faultsSuspended > 0 {
			return simapi.NoFault
		}
		n++
		sig := c.Verb + " " + c.Kind
		if c.Callsite != "" {
			cs := c.Callsite
			if i := strings.Index(cs, "<"); i > 0 {
				cs = cs[:i]
			}
			sig += " @" + cs
		}
		calls = append(calls, sig)
		invID := 0
		if c.Inv != nil {
			invID = c.Inv.ID
		}
		// calls issued in parallel by one sync carry the same signature: the object tells them apart (a pod by the node it
		// is for, since generated pod names follow the arrival order; anything else by its name)
		obj := c.Name
		if c.Kind == simapi.KindPod {
			if p, isPod := c.Submitted.(*corev1.Pod); isPod && p != nil && kit.NodeOfPod(p) != "" {
				obj = "node=" + kit.NodeOfPod(p)
			}
		}
		ok := fmt.Sprintf("%d|%s|%s", invID, sig, obj)
		occ[ok]++
		key := fmt.Sprintf("%s|%d", ok, occ[ok])
		w.c11Keys = append(w.c11Keys, key)
		if k1Key != "" && key == k1Key {
			k1Key = ""
			hit = append(hit, fmt.Sprintf("#%d %s: %s", n, sig, f1))
			return f1
		}
		if k2Key != "" && key == k2Key {
			k2Key = ""
			hit = append(hit, fmt.Sprintf("#%d %s: %s", n, sig, f2))
			return f2
		}
		return simapi.NoFault
	}
	sc.run(w)
	w.S.Fault = nil
	// failure-free recovery rounds (no shorter than the reconcile frequency, which throttles the replica sets)
	step := 2 * time.Second
	for _, o := range w.S.All(simapi.KindEDS) {
		if f := o.(*v1.ExtendedDaemonSet).Spec.Strategy.ReconcileFrequency; f != nil && f.Duration > step {
			step = f.Duration
		}
	}
	c11SettleStep(w, 14, step)
	return calls, w.abstractFinal(), hit, w
}

func (e *C11) init(ctx0 *core.Ctx, tier string, seed int64) {
	e.mu.Lock()
	defer e.mu.Unlock()
	if e.base != nil && e.tier == tier {
		return
	}
	e.tier = tier
	e.base = map[string]*c11Base{}
	e.plan = nil
	dummy := core.NewRunner("C11", tier, seed, e)
	_ = dummy
	for _, sc := range c11Scripts() {
		ctx := core.ScratchCtx("C11", tier, seed)
		calls, final, _, bw := e.runScript(ctx, sc, 0, 0, 0, 0, false)
		// canonical order (invocation, signature, occurrence): the same plan in every worker process whatever order
		// parallel calls reached the seam in
		keys := append([]string{}, bw.c11Keys...)
		sort.SliceStable(keys, func(i, j int) bool {
			var a, b int
			fmt.Sscanf(keys[i], "%d|", &a)
			fmt.Sscanf(keys[j], "%d|", &b)
			if a != b {
				return a < b
			}
			return keys[i] < keys[j]
		})
		calls = calls[:0]
		for _, k := range keys {
			parts := strings.SplitN(k, "|", 4)
			calls = append(calls, parts[1])
		}
		e.base[sc.name] = &c11Base{calls: calls, keys: keys, final: final, maxLive: bw.MaxLivePerNode}
		if os.Getenv("VH_C11_DUMP") == sc.name {
			for i, c := range calls {
				fmt.Fprintf(os.Stderr, "C11DUMP %d %s\n", i+1, c)
			}
			fmt.Fprintln(os.Stderr, "C11DUMP final", final)
			for _, t := range bw.Trace {
				fmt.Fprintln(os.Stderr, "C11TRACE", t)
			}
		}
		for k, sig := range calls {
			isWrite := !(strings.HasPrefix(sig, "get ") || strings.HasPrefix(sig, "list "))
			_ = isWrite // both tiers enumerate every call; thorough adds pairs
			for _, f := range faultKinds {
				e.plan = append(e.plan, c11Case{script: sc.name, k1: k + 1, f1: f})
			}
		}
	}
	if tier == "thorough" {
		// seeded pairs
		r := core.ScratchCtx("C11-pairs", tier, seed).Rand
		scripts := c11Scripts()
		for i := 0; i < 20000; i++ {
			sc := scripts[r.Intn(len(scripts))]
			K := len(e.base[sc.name].calls)
			if K < 2 {
				continue
			}
			a, b := 1+r.Intn(K), 1+r.Intn(K)
			if a == b {
				continue
			}
			if a > b {
				a, b = b, a
			}
			e.plan = append(e.plan, c11Case{script: sc.name, k1: a, f1: faultKinds[r.Intn(4)], k2: b, f2: faultKinds[r.Intn(4)]})
		}
	}
}

func (e *C11) Cases(tier string, seed int64) int {
	e.init(nil, tier, seed)
	return len(e.plan)
}
func (e *C11) Floors(tier string) map[string]int {
	return map[string]int{"C11.fault-runs": 2000, "C11.faults-hit": 2000, "C11.stop-faults-hit": 1000, "C11.writes-faulted": 600}
}

func (e *C11) Run(ctx *core.Ctx, idx int) {
	e.init(ctx, ctx.Tier, ctx.Seed)
	cs := e.plan[idx]
	var sc c11Script
	for _, s := range c11Scripts() {
		if s.name == cs.script {
			sc = s
		}
	}
	base := e.base[cs.script]
	_, final, hit, w := e.runScript(ctx, sc, cs.k1, cs.f1, cs.k2, cs.f2, true)
	ctx.Count("C11.fault-runs")
	ctx.Count("evaluations")
	ctx.Add("C11.faults-hit", len(hit))
	for _, h := range hit {
		if strings.Contains(h, "stop-") {
			ctx.Count("C11.stop-faults-hit")
		}
		if !(strings.Contains(h, " get ") || strings.Contains(h, " list ")) {
			ctx.Count("C11.writes-faulted")
		}
		parts := strings.SplitN(h, " ", 2)
		if len(parts) == 2 {
			ctx.Distinct("nontrivial", cs.script+"|"+parts[1])
			ctx.Count("C11.faulted:" + strings.SplitN(parts[1], ":", 2)[0])
		}
	}
	desc := map[string]any{"scenario": cs.script, "faults": hit}
	if len(hit) > 0 && ctx.Rand.Intn(300) == 0 {
		ctx.Sample(desc)
	}
	if os.Getenv("VH_DEBUG") != "" && len(hit) > 0 && strings.Contains(hit[0], "update ExtendedDaemonSet @extendeddaemonset.(*Reconciler).updateInstanceWithCurrentRS") && !strings.Contains(hit[0], "status-update") {
		fmt.Fprintf(os.Stderr, "DEBUG %s %v\nFINAL:\n%s\nBASE:\n%s\nTRACE:\n%s\n", cs.script, hit, final, base.final, strings.Join(w.Trace, "\n"))
	}
	if len(w.ActsAfterFailedRead) > 0 {
		// the per-invocation safety monitors judge a reconcile against what it read; a reconcile that
		// creates or deletes pods / replica sets although one of the reads it bases that on was refused
		// acts on a state it did not read
		ctx.Violation("C11", "C11.acted-after-failed-read", map[string]string{"scenario": cs.script, "fault": cs.f1.String()}, map[string]any{"case": desc, "acts": w.ActsAfterFailedRead})
	}
	ctx.Count("C11.store-invariant-runs-judged")
	if w.MaxLivePerNode > base.maxLive {
		// store-level safety at every intermediate point: a node never holds more live daemon pods
		// than it ever does in the failure-free run of the same scenario
		attrs := map[string]string{"scenario": cs.script, "fault": cs.f1.String(), "invariant": "one-live-pod-per-node"}
		if len(hit) > 0 {
			h := hit[0]
			if i := strings.Index(h, " "); i > 0 {
				h = h[i+1:]
			}
			attrs["call"] = strings.SplitN(h, ":", 2)[0]
		}
		tr := w.Trace
		if len(tr) > 120 {
			tr = tr[len(tr)-120:]
		}
		ctx.Violation("C11", "C11.safety-state", attrs, map[string]any{"case": desc, "witness": w.MaxLiveWitness, "failure-free-max": base.maxLive, "trace_tail": tr})
	}
	if final != base.final {
		attrs := map[string]string{"scenario": cs.script, "fault": cs.f1.String(), "pair": fmt.Sprint(cs.k2 > 0)}
		if len(hit) > 0 {
			h := hit[0]
			if i := strings.Index(h, " "); i > 0 {
				h = h[i+1:]
			}
			attrs["call"] = strings.SplitN(h, ":", 2)[0]
		}
		tr := w.Trace
		if len(tr) > 120 {
			tr = tr[len(tr)-120:]
		}
		ctx.Violation("C11", "C11.converges-to-same-state", attrs, map[string]any{"case": desc, "final": strings.Split(final, "\n"), "failure-free-final": strings.Split(base.final, "\n"), "trace_tail": tr})
	}
}
