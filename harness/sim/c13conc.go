package sim

import (
	"crypto/md5"
	"encoding/json"
	"fmt"
	"math/rand"
	"runtime"
	"sort"
	"sync"
	"time"

	corev1 "k8s.io/api/core/v1"
	metav1 "k8s.io/apimachinery/pkg/apis/meta/v1"
	"sigs.k8s.io/controller-runtime/pkg/client"

	v1 "github.com/DataDog/extendeddaemonset/api/v1alpha1"

	"vh/core"
	"vh/kit"
	"vh/simapi"
)

// C13Conc: the controllers of one manager really run in parallel. Two ExtendedDaemonSet workers,
// two PodTemplate workers, a replica-set worker, a kubelet and a user editing the (large) templates of
// several ExtendedDaemonSets share one store. A thread-safe monitor at the client seam judges every
// applied replica-set create and every applied PodTemplate create/update against a hash computed by
// the harness itself from the object's own template; at the end no ExtendedDaemonSet may own two live
// replica sets with the same template.
type C13Conc struct{}

func (e *C13Conc) Name() string { return "conc.c13" }
func (e *C13Conc) Rule() string {
	return "4-6 ExtendedDaemonSets with templates of several kilobytes, edited A->B->C->A by a user goroutine while two ExtendedDaemonSet workers, two PodTemplate workers, one replica-set worker, a kubelet and the clock run as real goroutines (never two reconciles of the same object at once, random yields at the client seam); every applied replica-set create and PodTemplate create/update must record the md5 the harness computes from that object's own template, and the final store holds no two live replica sets of one ExtendedDaemonSet with equal templates; non-trivial = distinct (kind, template) writes judged while another hash computation was in flight"
}
func (e *C13Conc) Cases(tier string, _ int64) int {
	if tier == "thorough" {
		return 240
	}
	return 32
}
func (e *C13Conc) Floors(string) map[string]int {
	return map[string]int{"C13.conc-runs": 20, "C13.conc-rs-creates-judged": 150, "C13.conc-podtemplate-writes-judged": 150}
}

func refTemplateHash(t *corev1.PodTemplateSpec) string {
	b, _ := json.Marshal(t)
	return fmt.Sprintf("%x", md5.Sum(b))
}

func bigTpl(marker string, edsName string) corev1.PodTemplateSpec {
	t := kit.Tpl(marker)
	t.Annotations = map[string]string{}
	for i := 0; i < 60; i++ {
		t.Annotations[fmt.Sprintf("config.example.com/%s-%02d", edsName, i)] = fmt.Sprintf("%s-%s-%02d-0123456789abcdefghijklmnopqrstuvwxyz0123456789abcdefghijklmnopqrstuvwxyz", marker, edsName, i)
	}
	return t
}

func (e *C13Conc) Run(ctx *core.Ctx, idx int) {
	r := ctx.Rand
	w := NewWorld(ctx, kit.CtlOpts{Affinity: r.Intn(2) == 0})
	w.MaxTrace = 0
	w.Mode = "C"
	for i := 0; i < 3; i++ {
		w.AddNode(kit.Node(fmt.Sprintf("n%d", i), map[string]string{"role": "agent"}))
	}
	nEDS := 4 + r.Intn(3)
	var names []string
	for i := 0; i < nEDS; i++ {
		name := fmt.Sprintf("eds%d", i)
		names = append(names, name)
		ed := &v1.ExtendedDaemonSet{ObjectMeta: metav1.ObjectMeta{Namespace: "ns1", Name: name}}
		ed.Spec.Template = bigTpl("A", name)
		ed.Spec.Strategy.ReconcileFrequency = &metav1.Duration{Duration: time.Second}
		w.CreateEDS(ed)
	}
	type finding struct {
		rule   string
		attrs  map[string]string
		detail map[string]any
	}
	var mu sync.Mutex
	var found []finding
	rsJudged, ptJudged := 0, 0
	distinct := map[string]bool{}
	judge := func(phase string, c *simapi.Call) {
		if phase != "post" || !c.Applied() || c.Post == nil {
			return
		}
		switch {
		case c.Verb == "create" && c.Kind == simapi.KindERS:
			rs := c.Post.(*v1.ExtendedDaemonSetReplicaSet)
			want := refTemplateHash(&rs.Spec.Template)
			mu.Lock()
			rsJudged++
			distinct["rs/"+want] = true
			if rs.Annotations[v1.MD5ExtendedDaemonSetAnnotationKey] != want || rs.Spec.TemplateGeneration != want {
				found = append(found, finding{"C13.hash-of-own-template", map[string]string{"where": "replicaset", "schedule": "concurrent"},
					map[string]any{"rs": rs.Name, "annotation": rs.Annotations[v1.MD5ExtendedDaemonSetAnnotationKey], "templateGeneration": rs.Spec.TemplateGeneration, "hash-of-its-template": want, "template-marker": kit.MarkerOfTemplate(&rs.Spec.Template)}})
			}
			mu.Unlock()
		case (c.Verb == "create" || c.Verb == "update") && c.Kind == simapi.KindPodTpl:
			pt := c.Post.(*corev1.PodTemplate)
			want := refTemplateHash(&pt.Template)
			mu.Lock()
			ptJudged++
			distinct["pt/"+want] = true
			if pt.Annotations[v1.MD5ExtendedDaemonSetAnnotationKey] != want {
				found = append(found, finding{"C13.hash-of-own-template", map[string]string{"where": "podtemplate", "schedule": "concurrent", "verb": c.Verb},
					map[string]any{"podtemplate": pt.Name, "annotation": pt.Annotations[v1.MD5ExtendedDaemonSetAnnotationKey], "hash-of-its-template": want, "template-marker": kit.MarkerOfTemplate(&pt.Template)}})
			}
			mu.Unlock()
		}
	}
	for _, c := range []*simapi.Client{w.Ctl.CEDS, w.Ctl.CERS, w.Ctl.CSet, w.Ctl.CPT} {
		jit := jitterHook(rand.New(rand.NewSource(r.Int63())))
		c.Hook = func(phase string, call *simapi.Call) {
			judge(phase, call)
			jit(phase, call)
		}
	}
	const ops = 90
	var wg sync.WaitGroup
	var pmu sync.Mutex
	var panics []string
	run := func(f func(rr *rand.Rand, i int), seed int64) {
		wg.Add(1)
		go func() {
			defer wg.Done()
			rr := rand.New(rand.NewSource(seed))
			for i := 0; i < ops; i++ {
				f(rr, i)
				runtime.Gosched()
			}
		}()
	}
	var inFlight sync.Map
	rec := func(ctlName string, list func() []string) func(*rand.Rand, int) {
		return func(rr *rand.Rand, i int) {
			ns := list()
			if len(ns) == 0 {
				return
			}
			name := ns[rr.Intn(len(ns))]
			if _, busy := inFlight.LoadOrStore(ctlName+"/"+name, true); busy {
				return
			}
			defer inFlight.Delete(ctlName + "/" + name)
			out := w.Ctl.Reconcile(ctlName, "ns1", name, "C")
			if out.Panic != "" {
				pmu.Lock()
				panics = append(panics, ctlName+": "+out.Panic+" @ "+out.PanicAt)
				pmu.Unlock()
			}
		}
	}
	edsNames := func() []string { return names }
	rsNames := func() []string {
		var out []string
		for _, rs := range kit.RSs(w.S) {
			out = append(out, rs.Name)
		}
		sort.Strings(out)
		return out
	}
	run(rec("eds", edsNames), r.Int63())
	run(rec("eds", edsNames), r.Int63())
	run(rec("podtemplate", edsNames), r.Int63())
	run(rec("podtemplate", edsNames), r.Int63())
	run(rec("ers", rsNames), r.Int63())
	run(func(rr *rand.Rand, i int) { w.KubeletStep() }, r.Int63())
	run(func(rr *rand.Rand, i int) { simapi.Advance(time.Duration(1+rr.Intn(3)) * time.Second) }, r.Int63())
	run(func(rr *rand.Rand, i int) {
		if rr.Intn(3) == 0 {
			return
		}
		name := names[rr.Intn(len(names))]
		w.S.Mutate(simapi.KindEDS, "ns1", name, func(o client.Object) {
			o.(*v1.ExtendedDaemonSet).Spec.Template = bigTpl([]string{"A", "B", "C"}[rr.Intn(3)], name)
		})
	}, r.Int63())
	wg.Wait()
	for _, c := range []*simapi.Client{w.Ctl.CEDS, w.Ctl.CERS, w.Ctl.CSet, w.Ctl.CPT} {
		c.Hook = nil
	}
	ctx.Count("C13.conc-runs")
	ctx.Count("evaluations")
	ctx.Add("C13.conc-rs-creates-judged", rsJudged)
	ctx.Add("C13.conc-podtemplate-writes-judged", ptJudged)
	for k := range distinct {
		ctx.Distinct("nontrivial", fmt.Sprintf("%d/%s", idx, k))
	}
	for _, f := range found {
		ctx.Violation("C13", f.rule, f.attrs, f.detail)
	}
	for _, p := range panics {
		ctx.Violation("C13", "C13.no-panic", map[string]string{"where": "concurrent", "panic": firstLine(p)}, nil)
	}
	// end state: no two live replica sets of one ExtendedDaemonSet carry the same template
	byOwner := map[string][]*v1.ExtendedDaemonSetReplicaSet{}
	for _, rs := range kit.RSs(w.S) {
		if rs.DeletionTimestamp != nil {
			continue
		}
		byOwner[rs.Labels[v1.ExtendedDaemonSetNameLabelKey]] = append(byOwner[rs.Labels[v1.ExtendedDaemonSetNameLabelKey]], rs)
	}
	for owner, rss := range byOwner {
		seen := map[string]string{}
		for _, rs := range rss {
			h := refTemplateHash(&rs.Spec.Template)
			if other, ok := seen[h]; ok {
				ctx.Violation("C13", "C13.one-per-template", map[string]string{"schedule": "concurrent"}, map[string]any{"eds": owner, "replicasets": []string{other, rs.Name}, "template-marker": kit.MarkerOfTemplate(&rs.Spec.Template)})
			}
			seen[h] = rs.Name
		}
	}
}
