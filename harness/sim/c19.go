package sim

import (
	"encoding/json"
	"fmt"
	"sort"
	"strings"
	"time"

	corev1 "k8s.io/api/core/v1"
	metav1 "k8s.io/apimachinery/pkg/apis/meta/v1"

	v1 "github.com/DataDog/extendeddaemonset/api/v1alpha1"

	"vh/core"
	"vh/kit"
	"vh/oracle"
	"vh/simapi"
)

// C19 engine: the real kubectl-eds command bodies on every reachable state.
type C19 struct{}

var c19Cmds = []string{"canary-pause", "canary-unpause", "canary-validate", "canary-fail", "pause-rolling-update", "unpause-rolling-update", "freeze-rollout", "unfreeze-rollout"}
var c19States = []string{"no-canary", "canary-running", "canary-on-a-formerly-active-replicaset", "auto-paused", "auto-paused-by-restarts", "user-paused", "failed", "mid-rolling-update", "canary-before-first-pod", "user-paused-before-first-pod", "rollout-frozen", "rolling-update-paused"}

func (e *C19) Name() string { return "sim.c19" }
func (e *C19) Rule() string {
	return "reachable states {no canary, canary running, canary on a replica set that has been active before (template reverted during the rolling update), auto-paused by a start error that went away, auto-paused by restart counts that stay, user-paused, failed, mid rolling update, canary before its first pod} x every sequence of 1-3 of the 8 commands (584 per state; all in thorough, seeded sample in quick) x {no edit, template edit before the reconciles}; each command runs through its real body with an injected client; whole-store diff before/after each command; then cooperative rounds and the state/promotion/rollback expectations; non-trivial = distinct (state, sequence, edit) tuples in which at least one command acted"
}

func c19Seqs() [][]int {
	var out [][]int
	n := len(c19Cmds)
	for a := 0; a < n; a++ {
		out = append(out, []int{a})
	}
	for a := 0; a < n; a++ {
		for b := 0; b < n; b++ {
			out = append(out, []int{a, b})
		}
	}
	for a := 0; a < n; a++ {
		for b := 0; b < n; b++ {
			for c := 0; c < n; c++ {
				out = append(out, []int{a, b, c})
			}
		}
	}
	return out
}

func (e *C19) Cases(tier string, _ int64) int {
	if tier == "thorough" {
		return len(c19States) * len(c19Seqs()) * 2
	}
	return 1600
}
func (e *C19) Floors(string) map[string]int {
	return map[string]int{"C19.commands-run": 2500, "C19.commands-acted": 600, "C19.commands-refused": 1000, "C19.interpretations-judged": 300}
}

func snapshotStore(s *simapi.Store) map[string]map[string]any {
	out := map[string]map[string]any{}
	for kind, objs := range s.Snapshot() {
		for _, o := range objs {
			b, _ := json.Marshal(o)
			m := map[string]any{}
			_ = json.Unmarshal(b, &m)
			if md, ok := m["metadata"].(map[string]any); ok {
				delete(md, "resourceVersion")
			}
			out[kind+" "+o.GetNamespace()+"/"+o.GetName()] = m
		}
	}
	return out
}

func diffAny(prefix string, a, b any, out *[]string) {
	am, aok := a.(map[string]any)
	bm, bok := b.(map[string]any)
	if aok && bok {
		keys := map[string]bool{}
		for k := range am {
			keys[k] = true
		}
		for k := range bm {
			keys[k] = true
		}
		for k := range keys {
			diffAny(prefix+"/"+k, am[k], bm[k], out)
		}
		return
	}
	ja, _ := json.Marshal(a)
	jb, _ := json.Marshal(b)
	if string(ja) != string(jb) {
		*out = append(*out, fmt.Sprintf("%s: %s -> %s", prefix, ja, jb))
	}
}

func storeDiff(a, b map[string]map[string]any) []string {
	var out []string
	keys := map[string]bool{}
	for k := range a {
		keys[k] = true
	}
	for k := range b {
		keys[k] = true
	}
	for k := range keys {
		var x, y any
		if a[k] != nil {
			x = a[k]
		}
		if b[k] != nil {
			y = b[k]
		}
		diffAny(k, x, y, &out)
	}
	sort.Strings(out)
	return out
}

const c19NS, c19Name = "ns1", "foo"

// prepare drives a world into the named state; returns false when the state could not be reached.
func (e *C19) prepare(w *World, state string) bool {
	r := w.R
	for i := 0; i < 4; i++ {
		w.AddNode(kit.Node(fmt.Sprintf("n%d", i), map[string]string{"zone": []string{"a", "b"}[i%2], "role": "agent"}))
	}
	ed := &v1.ExtendedDaemonSet{ObjectMeta: metav1.ObjectMeta{Namespace: c19NS, Name: c19Name, Labels: map[string]string{"team": "x"}, Annotations: map[string]string{"keep": "me"}}}
	ed.Spec.Template = kit.Tpl("A")
	ed.Spec.Strategy.ReconcileFrequency = &metav1.Duration{Duration: time.Second}
	ed.Spec.Strategy.RollingUpdate.MaxUnavailable = kit.IS(1)
	if state != "mid-rolling-update" {
		c := &v1.ExtendedDaemonSetSpecStrategyCanary{Replicas: kit.IS(1 + r.Intn(2))}
		if (state == "canary-before-first-pod" || state == "user-paused-before-first-pod") && r.Intn(3) == 0 {
			// zero canary replicas (legal): a canary that is declared but never gets a node
			if r.Intn(2) == 0 {
				c.Replicas = kit.IS(0)
			} else {
				c.Replicas = kit.PS("0%")
			}
		}
		if r.Intn(2) == 0 {
			c.ValidationMode = v1.ExtendedDaemonSetSpecStrategyCanaryValidationModeManual
		} else {
			c.ValidationMode = v1.ExtendedDaemonSetSpecStrategyCanaryValidationModeAuto
			c.Duration = &metav1.Duration{Duration: 6 * time.Hour}
			c.NoRestartsDuration = &metav1.Duration{Duration: time.Minute}
		}
		ed.Spec.Strategy.Canary = c
	}
	w.CreateEDS(ed)
	w.Coop = true
	for i := 0; i < 14; i++ {
		w.Round(2 * time.Second)
	}
	if w.finalOK(c19NS, c19Name, "A") != "" {
		return false
	}
	canaryUp := func(rounds int) bool {
		for i := 0; i < rounds; i++ {
			w.Round(2 * time.Second)
		}
		e := kit.GetEDS(w.S, c19NS, c19Name)
		return e != nil && e.Status.Canary != nil && len(e.Status.Canary.Nodes) > 0
	}
	switch state {
	case "no-canary":
	case "rollout-frozen", "rolling-update-paused":
		// no canary in flight (the strategy has a canary block) and a hold that status.state already reflects
		cmd := map[string]string{"rollout-frozen": "freeze-rollout", "rolling-update-paused": "pause-rolling-update"}[state]
		if err := w.Kubectl(cmd, c19NS, c19Name); err != nil {
			return false
		}
		for i := 0; i < 3; i++ {
			w.Round(2 * time.Second)
		}
		want := map[string]v1.ExtendedDaemonSetStatusState{"rollout-frozen": v1.ExtendedDaemonSetStatusStateRolloutFrozen, "rolling-update-paused": v1.ExtendedDaemonSetStatusStateRollingUpdatePaused}[state]
		if e := kit.GetEDS(w.S, c19NS, c19Name); e == nil || e.Status.State != want {
			return false
		}
	case "canary-running":
		w.SetTemplate(c19NS, c19Name, kit.Tpl("B"))
		if !canaryUp(6) {
			return false
		}
	case "canary-on-a-formerly-active-replicaset":
		// B goes through a canary and is validated; while its rolling update is under way (the replica set of A still
		// owns pods) the user reverts to A: the replica set that has been active before is now the canary
		w.SetTemplate(c19NS, c19Name, kit.Tpl("B"))
		if !canaryUp(6) {
			return false
		}
		if err := w.Kubectl("canary-validate", c19NS, c19Name); err != nil {
			return false
		}
		w.Round(2 * time.Second)
		e := kit.GetEDS(w.S, c19NS, c19Name)
		var rsA *v1.ExtendedDaemonSetReplicaSet
		for _, rs := range kit.RSs(w.S) {
			if rs.Namespace == c19NS && kit.MarkerOfTemplate(&rs.Spec.Template) == "A" {
				rsA = rs
			}
		}
		if e == nil || rsA == nil || e.Status.ActiveReplicaSet == rsA.Name || e.Status.Canary != nil {
			return false
		}
		w.SetTemplate(c19NS, c19Name, kit.Tpl("A"))
		if !canaryUp(4) {
			return false
		}
		e = kit.GetEDS(w.S, c19NS, c19Name)
		if e.Status.Canary == nil || e.Status.Canary.ReplicaSet != rsA.Name {
			return false
		}
	case "canary-before-first-pod":
		w.SetTemplate(c19NS, c19Name, kit.Tpl("B"))
		w.Reconcile("eds", c19NS, c19Name)
		w.Reconcile("eds", c19NS, c19Name)
		w.Reconcile("eds", c19NS, c19Name)
		e := kit.GetEDS(w.S, c19NS, c19Name)
		if e == nil || e.Status.Canary == nil {
			return false
		}
	case "user-paused-before-first-pod":
		w.SetTemplate(c19NS, c19Name, kit.Tpl("B"))
		w.Reconcile("eds", c19NS, c19Name)
		w.Reconcile("eds", c19NS, c19Name)
		w.Reconcile("eds", c19NS, c19Name)
		e := kit.GetEDS(w.S, c19NS, c19Name)
		if e == nil || e.Status.Canary == nil {
			return false
		}
		if err := w.Kubectl("canary-pause", c19NS, c19Name); err != nil {
			return false
		}
		for i := 0; i < 3; i++ {
			w.Round(2 * time.Second)
		}
	case "auto-paused":
		w.Coop = false
		for _, n := range w.SortedNodeNames() {
			w.Behav[n] = &NodeBehaviour{}
		}
		w.SetTemplate(c19NS, c19Name, kit.Tpl("B"))
		w.Reconcile("eds", c19NS, c19Name)
		w.Reconcile("eds", c19NS, c19Name)
		w.Reconcile("eds", c19NS, c19Name)
		e := kit.GetEDS(w.S, c19NS, c19Name)
		if e == nil || e.Status.Canary == nil {
			return false
		}
		for _, n := range e.Status.Canary.Nodes {
			w.Behav[n] = &NodeBehaviour{WaitingReason: "ImagePullBackOff"}
		}
		canaryUp(8)
		_, _, up := w.CanaryInProgress(c19NS, c19Name)
		if up == nil || !oracle.RSCond(up, v1.ConditionTypeCanaryPaused) {
			return false
		}
		// the image problem gets fixed; the pause persists until a manual action
		for _, n := range e.Status.Canary.Nodes {
			w.Behav[n] = &NodeBehaviour{}
		}
		w.Coop = true
	case "auto-paused-by-restarts":
		// like auto-paused, but the cause does not go away: the canary pods keep the restart count that
		// paused the canary (above autoPause.maxRestarts, below autoFail.maxRestarts)
		w.Coop = false
		for _, n := range w.SortedNodeNames() {
			w.Behav[n] = &NodeBehaviour{}
		}
		w.SetTemplate(c19NS, c19Name, kit.Tpl("B"))
		w.Reconcile("eds", c19NS, c19Name)
		w.Reconcile("eds", c19NS, c19Name)
		w.Reconcile("eds", c19NS, c19Name)
		e := kit.GetEDS(w.S, c19NS, c19Name)
		if e == nil || e.Status.Canary == nil {
			return false
		}
		for _, n := range e.Status.Canary.Nodes {
			w.Behav[n] = &NodeBehaviour{Restarts: 3}
		}
		canaryUp(8)
		_, _, up := w.CanaryInProgress(c19NS, c19Name)
		if up == nil || !oracle.RSCond(up, v1.ConditionTypeCanaryPaused) || oracle.RSCond(up, v1.ConditionTypeCanaryFailed) {
			return false
		}
		w.Coop = true
	case "user-paused":
		w.SetTemplate(c19NS, c19Name, kit.Tpl("B"))
		if !canaryUp(6) {
			return false
		}
		if err := w.Kubectl("canary-pause", c19NS, c19Name); err != nil {
			return false
		}
		canaryUp(2)
	case "failed":
		w.SetTemplate(c19NS, c19Name, kit.Tpl("B"))
		if !canaryUp(6) {
			return false
		}
		if err := w.Kubectl("canary-fail", c19NS, c19Name); err != nil {
			return false
		}
		canaryUp(3)
	case "mid-rolling-update":
		w.SetTemplate(c19NS, c19Name, kit.Tpl("B"))
		for i := 0; i < 2; i++ {
			w.Round(2 * time.Second)
		}
	}
	return true
}

func annKey(short string) string { return "extendeddaemonset.datadoghq.com/" + short }

func (e *C19) Run(ctx *core.Ctx, idx int) {
	seqs := c19Seqs()
	var state string
	var seq []int
	var edit bool
	if ctx.Tier == "thorough" {
		state = c19States[idx%len(c19States)]
		k := idx / len(c19States)
		seq = seqs[k%len(seqs)]
		edit = (k/len(seqs))%2 == 1
	} else {
		state = c19States[idx%len(c19States)]
		seq = seqs[ctx.Rand.Intn(len(seqs))]
		if idx < 8*len(c19States) { // every single command on every state
			seq = seqs[(idx/len(c19States))%8]
		}
		edit = ctx.Rand.Intn(3) == 0
	}
	w := NewWorld(ctx, kit.CtlOpts{Affinity: ctx.Rand.Intn(2) == 0})
	if !e.prepare(w, state) {
		ctx.Count("C19.state-not-reached:" + state)
		return
	}
	ctx.Count("C19.state-reached:" + state)
	var names []string
	for _, c := range seq {
		names = append(names, c19Cmds[c])
	}
	desc := map[string]any{"state": state, "sequence": names, "templateEditBeforeReconciles": edit}
	acted := false
	var lastCanaryCmd, validatedRS string
	failOK := false
	activeBefore := kit.GetEDS(w.S, c19NS, c19Name).Status.ActiveReplicaSet
	_, activeRS0, _ := w.CanaryInProgress(c19NS, c19Name)
	activeMarker := ""
	if activeRS0 != nil {
		activeMarker = kit.MarkerOfTemplate(&activeRS0.Spec.Template)
	}
	for _, cmd := range names {
		edsBefore := kit.GetEDS(w.S, c19NS, c19Name)
		before := snapshotStore(w.S)
		err := w.Kubectl(cmd, c19NS, c19Name)
		after := snapshotStore(w.S)
		diff := storeDiff(before, after)
		ctx.Count("C19.commands-run")
		ctx.Count("evaluations")
		attrs := map[string]string{"cmd": cmd, "state": state}
		d := map[string]any{"case": desc, "cmd": cmd, "err": fmt.Sprint(err), "diff": diff}
		hasCanary := edsBefore.Status.Canary != nil
		isCanaryCmd := strings.HasPrefix(cmd, "canary-")
		precond := hasCanary == isCanaryCmd
		if cmd == "canary-pause" || cmd == "canary-unpause" || cmd == "canary-fail" {
			precond = precond && edsBefore.Spec.Strategy.Canary != nil
		}
		if err != nil {
			ctx.Count("C19.commands-refused")
			if len(diff) > 0 {
				w.Mon.viol("C19", "C19.refused-but-changed", attrs, nil, d)
			}
			// a refusal although the documented precondition holds and the command is the one that
			// the situation calls for: unpause of a paused canary, pause of a running one, validate or
			// fail of an active canary ("pause leads to Canary Paused, unpause back to Canary, ...")
			// (judged for the first accepted-or-refused canary command only: no reconcile runs between
			// the commands of a sequence, so after an accepted command status.state is no longer the
			// situation the next one sees - "already paused / validated / not paused" are then legitimate)
			if precond && isCanaryCmd && edsBefore.Spec.Strategy.Canary != nil && !acted {
				st := edsBefore.Status.State
				needed := (cmd == "canary-unpause" && st == v1.ExtendedDaemonSetStatusStateCanaryPaused) ||
					(cmd == "canary-pause" && st == v1.ExtendedDaemonSetStatusStateCanary) ||
					((cmd == "canary-validate" || cmd == "canary-fail") && (st == v1.ExtendedDaemonSetStatusStateCanary || st == v1.ExtendedDaemonSetStatusStateCanaryPaused))
				ctx.Count("C19.refusals-judged")
				if needed {
					w.Mon.viol("C19", "C19.refused-although-precondition-holds", merge(attrs, "edsState", string(st)), nil, d)
				}
			}
			continue
		}
		if !precond {
			w.Mon.viol("C19", "C19.precondition", attrs, nil, d)
			continue
		}
		ctx.Count("C19.commands-acted")
		acted = true
		// allowed diff table
		edsKey := simapi.KindEDS + " " + c19NS + "/" + c19Name
		allowed := map[string]string{}
		switch cmd {
		case "canary-pause":
			allowed[edsKey+"/metadata/annotations/"+annKey("canary-paused")] = `"true"`
			allowed[edsKey+"/metadata/annotations/"+annKey("canary-unpaused")] = `"false"`
			lastCanaryCmd = cmd
		case "canary-unpause":
			allowed[edsKey+"/metadata/annotations/"+annKey("canary-paused")] = `"false"`
			allowed[edsKey+"/metadata/annotations/"+annKey("canary-unpaused")] = `"true"`
			lastCanaryCmd = cmd
		case "canary-validate":
			allowed[edsKey+"/metadata/annotations/"+annKey("canary-valid")] = fmt.Sprintf("%q", edsBefore.Status.Canary.ReplicaSet)
			validatedRS = edsBefore.Status.Canary.ReplicaSet
			lastCanaryCmd = cmd
		case "canary-fail":
			failOK = true
			lastCanaryCmd = cmd
		case "pause-rolling-update":
			allowed[edsKey+"/metadata/annotations/"+annKey("rolling-update-paused")] = `"true"`
		case "unpause-rolling-update":
			allowed[edsKey+"/metadata/annotations/"+annKey("rolling-update-paused")] = `"false"`
		case "freeze-rollout":
			allowed[edsKey+"/metadata/annotations/"+annKey("rollout-frozen")] = `"true"`
		case "unfreeze-rollout":
			allowed[edsKey+"/metadata/annotations/"+annKey("rollout-frozen")] = `"false"`
		}
		for _, line := range diff {
			path := line[:strings.Index(line, ": ")]
			to := line[strings.LastIndex(line, " -> ")+4:]
			if want, ok := allowed[path]; ok {
				if to != want {
					w.Mon.viol("C19", "C19.documented-change-only", merge(attrs, "cause", "wrong-value"), nil, d)
				}
				continue
			}
			if cmd == "canary-fail" && strings.HasPrefix(path, simapi.KindERS+" "+c19NS+"/"+edsBefore.Status.Canary.ReplicaSet+"/status/conditions") {
				continue
			}
			w.Mon.viol("C19", "C19.documented-change-only", merge(attrs, "cause", "undocumented-field:"+path[strings.Index(path, "/")+1:]), nil, d)
		}
		if cmd == "canary-fail" {
			rs := kit.GetRS(w.S, c19NS, edsBefore.Status.Canary.ReplicaSet)
			if rs == nil || !oracle.RSCond(rs, v1.ConditionTypeCanaryFailed) {
				w.Mon.viol("C19", "C19.documented-change-only", merge(attrs, "cause", "canary-failed-condition-not-set"), nil, d)
			}
		} else if len(diff) == 0 {
			w.Mon.viol("C19", "C19.acted-without-change", attrs, nil, d)
		}
	}
	if acted {
		if ctx.Distinct("nontrivial", fmt.Sprint(desc)) && ctx.Rand.Intn(30) == 0 {
			ctx.Sample(desc)
		}
	}
	if lastCanaryCmd == "" {
		return
	}
	// --- interpretation by the following reconciles
	wasFailed := state == "failed" || failOK
	if edit {
		w.SetTemplate(c19NS, c19Name, kit.Tpl("C"))
	}
	for i := 0; i < 6; i++ {
		w.Round(2 * time.Second)
	}
	ed := kit.GetEDS(w.S, c19NS, c19Name)
	attrs := map[string]string{"state": state, "last": lastCanaryCmd, "edit": fmt.Sprint(edit)}
	d := map[string]any{"case": desc, "status": fmt.Sprintf("state=%q active=%s canary=%v", ed.Status.State, ed.Status.ActiveReplicaSet, ed.Status.Canary)}
	ctx.Count("C19.interpretations-judged")
	switch {
	case wasFailed:
		// fail leads to the rollback: spec restored to the active template (unless edited after), canary cleared, active unchanged
		if ed.Status.ActiveReplicaSet != activeBefore && validatedRS == "" {
			w.Mon.viol("C19", "C19.fail-rolls-back", merge(attrs, "cause", "active-changed"), nil, d)
		}
		if !edit && validatedRS == "" {
			if kit.MarkerOfTemplate(&ed.Spec.Template) != activeMarker || ed.Status.Canary != nil {
				w.Mon.viol("C19", "C19.fail-rolls-back", merge(attrs, "cause", "spec-or-status-not-restored"), nil, d)
			}
		}
	case validatedRS != "":
		// validate promotes exactly the replica set that was canary when it ran, not a later one
		if edit {
			for _, rs := range kit.RSs(w.S) {
				if rs.Namespace == c19NS && kit.MarkerOfTemplate(&rs.Spec.Template) == "C" && ed.Status.ActiveReplicaSet == rs.Name {
					w.Mon.viol("C19", "C19.validate-exact-replicaset", merge(attrs, "cause", "later-replicaset-promoted"), nil, d)
				}
			}
		} else if ed.Status.ActiveReplicaSet != validatedRS {
			w.Mon.viol("C19", "C19.validate-exact-replicaset", merge(attrs, "cause", "validated-replicaset-not-promoted"), nil, d)
		}
	case edit:
		// a new template restarts the canary; pause/unpause expectations are not defined by the statement
	case lastCanaryCmd == "canary-pause":
		if ed.Status.State != v1.ExtendedDaemonSetStatusStateCanaryPaused {
			w.Mon.viol("C19", "C19.pause-leads-to-canary-paused", attrs, nil, d)
		}
	case lastCanaryCmd == "canary-unpause":
		if ed.Status.State != v1.ExtendedDaemonSetStatusStateCanary {
			_, _, up := w.CanaryInProgress(c19NS, c19Name)
			evaluable := 0
			if up != nil {
				for _, p := range w.DaemonPods(c19NS, c19Name) {
					if kit.MarkerOfPod(p) == kit.MarkerOfTemplate(&up.Spec.Template) && p.DeletionTimestamp == nil {
						evaluable++
					}
				}
			}
			w.Mon.viol("C19", "C19.unpause-leads-to-canary", merge(attrs, "canaryPods", fmt.Sprint(min(evaluable, 1))), nil, d)
		}
	}
	_ = corev1.PodRunning
}
