package sim

import (
	"context"
	"fmt"
	"sort"
	"time"

	corev1 "k8s.io/api/core/v1"
	"sigs.k8s.io/controller-runtime/pkg/client"
	"sigs.k8s.io/controller-runtime/pkg/event"
	"sigs.k8s.io/controller-runtime/pkg/reconcile"

	v1 "github.com/DataDog/extendeddaemonset/api/v1alpha1"
	"github.com/DataDog/extendeddaemonset/pkg/controller/utils/enqueue"

	"vh/kit"
	"vh/simapi"
)

// E mode: a model of how controller-runtime triggers the four reconcilers, as wired in
// controllers/*_controller.go: For (own kind), Owns (controller owner reference) and the
// repository's real enqueue handlers (RequestForExtendedDaemonSetLabel on pods for the EDS
// controller, RequestForExtendedDaemonSetStatus on EDS changes for the replica-set controller),
// a de-duplicating queue per controller and a delay queue in virtual time for RequeueAfter,
// Requeue and returned errors. Nothing is reconciled unless an event or a requeue says so.

// recQueue records the requests an enqueue handler adds.
type recQueue struct{ added []reconcile.Request }

func (q *recQueue) Add(r reconcile.Request)                       { q.added = append(q.added, r) }
func (q *recQueue) Len() int                                      { return len(q.added) }
func (q *recQueue) Get() (reconcile.Request, bool)                { return reconcile.Request{}, true }
func (q *recQueue) Done(reconcile.Request)                        {}
func (q *recQueue) ShutDown()                                     {}
func (q *recQueue) ShutDownWithDrain()                            {}
func (q *recQueue) ShuttingDown() bool                            { return false }
func (q *recQueue) AddAfter(r reconcile.Request, _ time.Duration) { q.added = append(q.added, r) }
func (q *recQueue) AddRateLimited(r reconcile.Request)            { q.added = append(q.added, r) }
func (q *recQueue) Forget(reconcile.Request)                      {}
func (q *recQueue) NumRequeues(reconcile.Request) int             { return 0 }

type eItem struct {
	ctl, ns, name string
}

type eDelayed struct {
	at   time.Time
	item eItem
}

// EventLoop is the E-mode scheduler state.
type EventLoop struct {
	w          *World
	ready      []eItem
	inReady    map[eItem]bool
	delayed    []eDelayed
	failures   map[eItem]int
	pending    []simapi.Event
	Reconciles int
	lblHandler *enqueue.RequestForExtendedDaemonSetLabel
	stHandler  *enqueue.RequestForExtendedDaemonSetStatus
}

// NewEventLoop subscribes to the store's watch events.
func NewEventLoop(w *World) *EventLoop {
	l := &EventLoop{w: w, inReady: map[eItem]bool{}, failures: map[eItem]int{},
		lblHandler: &enqueue.RequestForExtendedDaemonSetLabel{}, stHandler: &enqueue.RequestForExtendedDaemonSetStatus{}}
	w.S.Subscribe(func(e simapi.Event) { l.pending = append(l.pending, e) }) // called under the store lock: only record
	return l
}

func (l *EventLoop) add(it eItem) {
	if !l.inReady[it] {
		l.inReady[it] = true
		l.ready = append(l.ready, it)
	}
}

func (l *EventLoop) addAfter(it eItem, d time.Duration) {
	if d <= 0 {
		l.add(it)
		return
	}
	l.delayed = append(l.delayed, eDelayed{at: l.w.Now().Add(d), item: it})
}

func ownerOf(o client.Object, kind string) string {
	for _, r := range o.GetOwnerReferences() {
		if r.Kind == kind && r.Controller != nil && *r.Controller {
			return r.Name
		}
	}
	return ""
}

// dispatch turns recorded watch events into queue entries, as the controllers' watches do.
func (l *EventLoop) dispatch() {
	evs := l.pending
	l.pending = nil
	for _, e := range evs {
		objs := []client.Object{}
		if e.Old != nil {
			objs = append(objs, e.Old)
		}
		if e.New != nil {
			objs = append(objs, e.New)
		}
		for _, o := range objs {
			switch e.Kind {
			case simapi.KindEDS:
				l.add(eItem{"eds", o.GetNamespace(), o.GetName()})         // For
				l.add(eItem{"podtemplate", o.GetNamespace(), o.GetName()}) // For
				q := &recQueue{}
				switch e.Type {
				case simapi.Added:
					l.stHandler.Create(context.TODO(), event.CreateEvent{Object: o}, q)
				case simapi.Deleted:
					l.stHandler.Delete(context.TODO(), event.DeleteEvent{Object: o}, q)
				default:
					l.stHandler.Update(context.TODO(), event.UpdateEvent{ObjectOld: e.Old, ObjectNew: e.New}, q)
				}
				for _, r := range q.added {
					l.add(eItem{"ers", r.Namespace, r.Name})
				}
			case simapi.KindERS:
				l.add(eItem{"ers", o.GetNamespace(), o.GetName()}) // For
				if own := ownerOf(o, "ExtendedDaemonSet"); own != "" {
					l.add(eItem{"eds", o.GetNamespace(), own}) // Owns
				}
			case simapi.KindPod:
				q := &recQueue{}
				l.lblHandler.Create(context.TODO(), event.CreateEvent{Object: o}, q)
				for _, r := range q.added {
					l.add(eItem{"eds", r.Namespace, r.Name})
				}
				if own := ownerOf(o, "ExtendedDaemonSetReplicaSet"); own != "" {
					l.add(eItem{"ers", o.GetNamespace(), own}) // Owns
				}
			case simapi.KindPodTpl:
				if own := ownerOf(o, "ExtendedDaemonSet"); own != "" {
					l.add(eItem{"podtemplate", o.GetNamespace(), own}) // Owns
				}
			case simapi.KindSetting:
				l.add(eItem{"setting", o.GetNamespace(), o.GetName()})
			}
		}
	}
}

// Kick enqueues everything once (controller start / informer initial list).
func (l *EventLoop) Kick() {
	for _, o := range l.w.S.All(simapi.KindEDS) {
		l.add(eItem{"eds", o.GetNamespace(), o.GetName()})
		l.add(eItem{"podtemplate", o.GetNamespace(), o.GetName()})
	}
	for _, o := range l.w.S.All(simapi.KindERS) {
		l.add(eItem{"ers", o.GetNamespace(), o.GetName()})
	}
	for _, o := range l.w.S.All(simapi.KindSetting) {
		l.add(eItem{"setting", o.GetNamespace(), o.GetName()})
	}
}

// backoff of the controller-runtime default rate limiter (5ms * 2^n, capped), lifted to a
// virtual-time floor of 100ms so that hot requeue loops make progress in virtual time.
func backoff(n int) time.Duration {
	d := 5 * time.Millisecond
	for i := 0; i < n && d < 16*time.Minute; i++ {
		d *= 2
	}
	if d < 100*time.Millisecond {
		d = 100 * time.Millisecond
	}
	return d
}

// RunUntil processes the queues until `deadline` (virtual) or until `quiet` returns true at a
// moment when nothing is ready. The kubelet model runs once per virtual second.
func (l *EventLoop) RunUntil(deadline time.Time, quiet func() bool) (reached bool) {
	w := l.w
	lastKubelet := w.Now()
	for guard := 0; guard < 200000; guard++ {
		l.dispatch()
		if w.Now().Sub(lastKubelet) >= time.Second {
			w.KubeletStep()
			lastKubelet = w.Now()
			l.dispatch()
		}
		// promote due delayed items
		now := w.Now()
		rest := l.delayed[:0]
		for _, d := range l.delayed {
			if !d.at.After(now) {
				l.add(d.item)
			} else {
				rest = append(rest, d)
			}
		}
		l.delayed = rest
		if len(l.ready) == 0 {
			if quiet() {
				return true
			}
			// jump to the next instant at which something can happen
			next := lastKubelet.Add(time.Second)
			sort.Slice(l.delayed, func(i, j int) bool { return l.delayed[i].at.Before(l.delayed[j].at) })
			if !now.Before(deadline) {
				return false
			}
			if next.After(deadline) {
				next = deadline
			}
			w.Advance(next.Sub(now))
			continue
		}
		if !now.Before(deadline) {
			return false
		}
		i := w.R.Intn(len(l.ready))
		it := l.ready[i]
		l.ready = append(l.ready[:i], l.ready[i+1:]...)
		delete(l.inReady, it)
		out := w.Reconcile(it.ctl, it.ns, it.name)
		l.Reconciles++
		switch {
		case out.Err != nil || out.Panic != "":
			l.failures[it]++
			l.addAfter(it, backoff(l.failures[it]))
		case out.Result.RequeueAfter > 0:
			delete(l.failures, it)
			l.addAfter(it, out.Result.RequeueAfter)
		case out.Result.Requeue:
			l.failures[it]++
			l.addAfter(it, backoff(l.failures[it]))
		default:
			delete(l.failures, it)
		}
		// each reconcile takes a little virtual time
		w.Advance(20 * time.Millisecond)
	}
	return false
}

// ConvergeE is the event-driven variant of the C02 convergence phase: after the hostile
// history the actors stop, holds are released, a running canary is validated or failed, all
// objects are enqueued once (controller start), and from then on only watch events, requeues
// and error retries trigger reconciles. The fixpoint must be reached by a virtual deadline.
func (w *World) ConvergeE(ns, name string, pendingChanges int) ConvergeResult {
	w.Coop = true
	w.phaseStart = w.Now()
	w.tracef("--- event-driven convergence phase for %s/%s ---", ns, name)
	w.forgetFailedPodBackoff(ns, name)
	res := ConvergeResult{Resolution: "none"}
	e := kit.GetEDS(w.S, ns, name)
	if e == nil {
		return res
	}
	loop := NewEventLoop(w)
	for _, k := range []string{v1.ExtendedDaemonSetRollingUpdatePausedAnnotationKey, v1.ExtendedDaemonSetRolloutFrozenAnnotationKey} {
		if _, ok := e.Annotations[k]; ok {
			w.Annotate(ns, name, k, "")
		}
	}
	loop.Kick()
	// let the controllers digest the current spec first
	loop.RunUntil(w.Now().Add(30*time.Second), func() bool { return false })
	inCanary, active, up := w.CanaryInProgress(ns, name)
	e = kit.GetEDS(w.S, ns, name)
	live := kit.MarkerOfTemplate(&e.Spec.Template)
	waits := time.Duration(0)
	if inCanary && active != nil && e.Status.Canary != nil && up != nil && e.Status.Canary.ReplicaSet == up.Name {
		switch w.R.Intn(2) {
		case 0:
			if err := w.Kubectl("canary-fail", ns, name); err == nil {
				res.Resolution = "kubectl-fail"
				live = kit.MarkerOfTemplate(&active.Spec.Template)
			}
		case 1:
			if err := w.Kubectl("canary-validate", ns, name); err == nil {
				res.Resolution = "kubectl-validate"
			}
		}
	} else if inCanary {
		// cannot be resolved by a command (not started / stale status): auto mode ends by time
		c := e.Spec.Strategy.Canary
		if c.ValidationMode != v1.ExtendedDaemonSetSpecStrategyCanaryValidationModeAuto || c.Duration == nil {
			w.Ctx.Count("C02.e-excluded-unresolvable-canary")
			return res
		}
		res.Resolution = "wait-duration"
		waits = c.Duration.Duration + 10*time.Minute
		if c.NoRestartsDuration != nil {
			waits += c.NoRestartsDuration.Duration
		}
	}
	nNodes := len(kit.Nodes(w.S))
	res.Bound = 12 + 4*nNodes*(1+pendingChanges)
	freq := 10 * time.Second
	if e.Spec.Strategy.ReconcileFrequency != nil && e.Spec.Strategy.ReconcileFrequency.Duration > time.Second {
		freq = e.Spec.Strategy.ReconcileFrequency.Duration
	}
	deadline := w.Now().Add(waits + time.Duration(res.Bound)*(freq+time.Second))
	before := w.podRSWrites
	// quiet = nothing ready, final predicate holds, and it still holds (with no writes) after 3 more frequencies
	stableSince := time.Time{}
	lastWrites := -1
	alt := ""
	res.Reached = loop.RunUntil(deadline, func() bool {
		if l2, failed := w.liveAfterFailure(ns, name, live); failed && l2 != live && alt == "" {
			alt = l2
			res.Resolution += "+auto-failed-during-phase"
		}
		if alt != "" && w.finalOK(ns, name, live) != "" && w.finalOK(ns, name, alt) == "" {
			live, alt = alt, live
		}
		if w.finalOK(ns, name, live) != "" {
			stableSince = time.Time{}
			return false
		}
		if lastWrites != w.podRSWrites || stableSince.IsZero() {
			lastWrites = w.podRSWrites
			stableSince = w.Now()
			return false
		}
		return w.Now().Sub(stableSince) >= 3*(freq+time.Second)
	})
	res.Live = live
	res.WorkDone = w.podRSWrites - before
	res.Rounds = loop.Reconciles
	ctx := w.Ctx
	ctx.Count("C02.e-convergence-phases")
	ctx.Add("C02.e-reconciles", loop.Reconciles)
	if res.WorkDone > 0 {
		ctx.Count("C02.e-convergence-phases-with-work")
	}
	if res.Reached {
		ctx.Count("C02.e-fixpoints-reached")
		return res
	}
	attrs := map[string]string{"resolution": res.Resolution, "canaryStrategy": fmt.Sprint(e.Spec.Strategy.Canary != nil), "schedule": "event-driven"}
	if lastErr := w.LastErr["eds "+ns+"/"+name]; lastErr != "" {
		ctx.Count("C02.e-excluded-reconcile-error")
		return res
	}
	why := w.finalOK(ns, name, live)
	if why == "" {
		why = "writes never stop"
	}
	attrs["why"] = classify(why)
	w.Mon.viol("C02", "C02.e-fixpoint-by-deadline", attrs, nil, map[string]any{"deadline-s": deadline.Sub(kit.T0).Seconds(), "reconciles": loop.Reconciles, "live": live, "why": why, "pods": w.podSummary(ns, name),
		"ready-queue": fmt.Sprint(loop.ready), "delayed": len(loop.delayed)})
	return res
}

var _ = corev1.PodRunning
