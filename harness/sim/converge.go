package sim

import (
	"fmt"
	"strings"
	"time"

	corev1 "k8s.io/api/core/v1"
	metav1 "k8s.io/apimachinery/pkg/apis/meta/v1"
	"k8s.io/apimachinery/pkg/labels"
	"sigs.k8s.io/controller-runtime/pkg/client"

	v1 "github.com/DataDog/extendeddaemonset/api/v1alpha1"

	"vh/kit"
	"vh/oracle"
	"vh/simapi"
)

// CanaryInProgress reports whether the stored EDS has a canary running and returns the
// active and the up-to-date replica sets.
func (w *World) CanaryInProgress(ns, name string) (bool, *v1.ExtendedDaemonSetReplicaSet, *v1.ExtendedDaemonSetReplicaSet) {
	e := kit.GetEDS(w.S, ns, name)
	if e == nil {
		return false, nil, nil
	}
	var active, up *v1.ExtendedDaemonSetReplicaSet
	for _, rs := range kit.RSs(w.S) {
		if rs.Namespace != ns || rs.Labels[v1.ExtendedDaemonSetNameLabelKey] != name {
			continue
		}
		if rs.Name == e.Status.ActiveReplicaSet {
			active = rs
		}
		if kit.MarkerOfTemplate(&rs.Spec.Template) == kit.MarkerOfTemplate(&e.Spec.Template) {
			up = rs
		}
	}
	in := e.Spec.Strategy.Canary != nil && active != nil && (up == nil || up.Name != active.Name)
	return in, active, up
}

// ConvergeResult describes a convergence phase.
type ConvergeResult struct {
	Rounds     int
	Bound      int
	Reached    bool
	Live       string
	Resolution string
	WorkDone   int // pod creates/deletes during the phase
}

// Converge runs the bounded-progress phase of C02 for one EDS: hostile actors stop, holds are
// released, a running canary is resolved (validate / fail / wait for its duration), then
// rounds run until a fixpoint holds for three consecutive rounds or the bound is hit.
// It emits C02 (and fixpoint clauses of C04, C07, C14) violations.
func (w *World) Converge(ns, name string, pendingChanges int) ConvergeResult {
	w.Coop = true
	w.phaseStart = w.Now()
	w.tracef("--- convergence phase for %s/%s ---", ns, name)
	w.forgetFailedPodBackoff(ns, name)
	res := ConvergeResult{}
	e := kit.GetEDS(w.S, ns, name)
	if e == nil {
		return res
	}
	releasedHold := ""
	releasedBy := "annotation-removed"
	for _, k := range []string{v1.ExtendedDaemonSetRollingUpdatePausedAnnotationKey, v1.ExtendedDaemonSetRolloutFrozenAnnotationKey} {
		if val, ok := e.Annotations[k]; ok {
			if val == "true" {
				releasedHold += k[strings.LastIndex(k, "/")+1:] + " "
			}
			// half of the releases go through the real command (which writes "false"); it refuses while a
			// canary is active, in which case the annotation is removed by hand
			cmd := map[string]string{v1.ExtendedDaemonSetRollingUpdatePausedAnnotationKey: "unpause-rolling-update", v1.ExtendedDaemonSetRolloutFrozenAnnotationKey: "unfreeze-rollout"}[k]
			if val == "true" && w.R.Intn(2) == 0 && w.Kubectl(cmd, ns, name) == nil {
				releasedBy = "command"
				continue
			}
			w.Annotate(ns, name, k, "")
		}
	}
	// let the EDS controller see the latest template first (creates the replica set if needed)
	w.Reconcile("eds", ns, name)
	w.Reconcile("eds", ns, name)
	inCanary, active, up := w.CanaryInProgress(ns, name)
	e = kit.GetEDS(w.S, ns, name)
	live := kit.MarkerOfTemplate(&e.Spec.Template)
	res.Resolution = "none"
	if inCanary && active != nil {
		failed := up != nil && oracle.RSCond(up, v1.ConditionTypeCanaryFailed)
		switch {
		case failed:
			res.Resolution = "already-failed"
			live = kit.MarkerOfTemplate(&active.Spec.Template)
		case e.Status.Canary == nil:
			// canary not started yet (status not written): let it start, then validate
			res.Resolution = "validate-late"
		case up == nil || e.Status.Canary.ReplicaSet != up.Name:
			// the status still names an earlier canary replica set (the reconcile that would have
			// replaced it keeps failing on node selection): commands would act on that stale one
			res.Resolution = "validate-late"
		default:
			switch w.R.Intn(3) {
			case 0:
				if err := w.Kubectl("canary-fail", ns, name); err == nil {
					res.Resolution = "kubectl-fail"
					live = kit.MarkerOfTemplate(&active.Spec.Template)
				}
			case 1:
				if err := w.Kubectl("canary-validate", ns, name); err == nil {
					res.Resolution = "kubectl-validate"
				}
			}
			if res.Resolution == "none" {
				res.Resolution = "validate-late"
			}
		}
	}
	nNodes := len(kit.Nodes(w.S))
	res.Bound = 12 + 4*nNodes*(1+pendingChanges)
	freq := 10 * time.Second
	if e.Spec.Strategy.ReconcileFrequency != nil {
		freq = e.Spec.Strategy.ReconcileFrequency.Duration
	}
	if freq < time.Second {
		freq = time.Second
	}
	step := freq + time.Second
	before := w.podRSWrites
	quiet := 0
	alt := "" // second acceptable live template once the canary was seen failed during the phase
	for res.Rounds < res.Bound+3 {
		w0 := w.podRSWrites
		if mr := w.Round(step); mr > step {
			// a canary duration / noRestartsDuration is still running: fast-forward to its end
			// (waiting is not progress the bound is about)
			w.Advance(mr)
		}
		res.Rounds++
		if res.Resolution == "validate-late" {
			if in, _, _ := w.CanaryInProgress(ns, name); in {
				_, _, up2 := w.CanaryInProgress(ns, name)
				if ee := kit.GetEDS(w.S, ns, name); ee != nil && ee.Status.Canary != nil && up2 != nil && ee.Status.Canary.ReplicaSet == up2.Name {
					if err := w.Kubectl("canary-validate", ns, name); err == nil {
						res.Resolution = "kubectl-validate"
					}
				}
			} else {
				res.Resolution = "promoted-or-no-canary"
			}
		}
		if l2, failed := w.liveAfterFailure(ns, name, live); failed && l2 != live && alt == "" {
			// the canary failed by itself during the phase (restarts left over from the hostile part):
			// "the previously active template after a canary failure" - unless it was also validated
			// explicitly (the either corner of C05/C07): both outcomes are accepted from here on
			alt = l2
			res.Resolution += "+auto-failed-during-phase"
		}
		if alt != "" && w.finalOK(ns, name, live) != "" && w.finalOK(ns, name, alt) == "" {
			live, alt = alt, live
		}
		if w.podRSWrites == w0 && w.finalOK(ns, name, live) == "" {
			quiet++
			if quiet == 3 {
				res.Reached = true
				break
			}
		} else {
			quiet = 0
		}
	}
	res.Live = live
	res.WorkDone = w.podRSWrites - before
	ctx := w.Ctx
	ctx.Count("C02.convergence-phases")
	if res.WorkDone > 0 {
		ctx.Count("C02.convergence-phases-with-work")
	}
	attrs := map[string]string{"resolution": res.Resolution, "canaryStrategy": fmt.Sprint(e.Spec.Strategy.Canary != nil)}
	if !res.Reached && strings.Contains(w.LastErr["eds "+ns+"/"+name], "unable to select enough node") {
		// a canary that cannot get its nodes legitimately stalls (C15: error instead of a smaller
		// canary) when fewer valid nodes exist than requested: premise of C02 not met
		valid, targeted := 0, 0
		ee := kit.GetEDS(w.S, ns, name)
		for _, n := range kit.Nodes(w.S) {
			if oracle.Eligible(n, &ee.Spec.Template.Spec) {
				targeted++
				if canarySelectorMatches(ee.Spec.Strategy.Canary.NodeSelector, n.Labels) {
					valid++
				}
			}
		}
		// the controller resolves a percentage against the node count it last published
		base := targeted
		if d := int(ee.Status.Desired); d > base {
			base = d
		}
		want, _ := kit.Resolve(ee.Spec.Strategy.Canary.Replicas, base)
		if valid < want {
			ctx.Count("C02.excluded-unsatisfiable-canary")
			return res
		}
		attrs["why"] = "canary-selection-error-despite-enough-nodes"
		w.Mon.viol("C02", "C02.fixpoint-within-bound", attrs, nil, map[string]any{"bound": res.Bound, "rounds": res.Rounds, "live": live, "validNodes": valid, "wanted": want, "lastError": w.LastErr["eds "+ns+"/"+name]})
		return res
	}
	if !res.Reached {
		why := w.finalOK(ns, name, live)
		if why == "" {
			why = "writes never stop"
		}
		attrs["why"] = classify(why)
		w.Mon.viol("C02", "C02.fixpoint-within-bound", attrs, nil, map[string]any{"bound": res.Bound, "rounds": res.Rounds, "live": live, "why": why, "pods": w.podSummary(ns, name)})
		if strings.Contains(res.Resolution, "fail") {
			// C07: after a canary failure the controller "subsequently replaces the canary pods by pods of
			// the active template on the former canary nodes" (and removes them where the active template
			// cannot run): no fixpoint within the bound
			w.Mon.viol("C07", "C07.canary-pods-replaced", map[string]string{"resolution": res.Resolution, "why": classify(why)}, nil,
				map[string]any{"bound": res.Bound, "rounds": res.Rounds, "live": live, "why": why, "pods": w.podSummary(ns, name)})
		}
		if releasedHold != "" {
			// C08: "a rolling update resumes once its annotation is removed or set to false"
			w.Mon.viol("C08", "C08.resumes-after-release", map[string]string{"released": strings.TrimSpace(releasedHold), "how": releasedBy, "why": classify(why)}, nil,
				map[string]any{"bound": res.Bound, "rounds": res.Rounds, "live": live, "why": why, "pods": w.podSummary(ns, name), "state": string(kit.GetEDS(w.S, ns, name).Status.State)})
			if releasedBy == "command" {
				// C19: the controllers' next reconciles obey the unpause / unfreeze the command wrote
				w.Mon.viol("C19", "C19.release-command-obeyed", map[string]string{"released": strings.TrimSpace(releasedHold), "why": classify(why)}, nil,
					map[string]any{"bound": res.Bound, "rounds": res.Rounds, "live": live, "why": why, "pods": w.podSummary(ns, name)})
			}
		}
		return res
	}
	if releasedHold != "" {
		ctx.Count("C08.releases-by-annotation-removal-judged")
	}
	w.Mon.AtFixpoint(ns, name, live, res)
	return res
}

// forgetFailedPodBackoff: the controller deletes a Failed pod only when its per-node backoff
// (10 s doubling to 15 min, in memory) allows; after a hostile phase that wait can exceed any round
// bound, and waiting is not the progress the bounds are about. When Failed pods are left, the
// cooperative phases therefore start with a controller process restart (a realistic event that
// empties the in-memory backoff), which is recorded in the trace and counted.
func (w *World) forgetFailedPodBackoff(ns, name string) {
	for _, p := range w.DaemonPods(ns, name) {
		if p.Status.Phase == corev1.PodFailed {
			w.Ctl.Rebuild()
			w.Ctx.Count("sim.restart-before-cooperative-phase")
			w.tracef("*** controller process restarted before the cooperative phase (Failed pods left; in-memory backoff lost)")
			return
		}
	}
}

// liveAfterFailure: when a replica set other than the active one is built from the template
// taken as live so far and carries Canary-Failed, the live template is the active replica set's
// (the failed one stays for its two-minute retention, so it is seen after the round it failed in).
func (w *World) liveAfterFailure(ns, name, live string) (string, bool) {
	e := kit.GetEDS(w.S, ns, name)
	if e == nil || e.Status.ActiveReplicaSet == "" {
		return live, false
	}
	var active *v1.ExtendedDaemonSetReplicaSet
	failed := false
	for _, rs := range kit.RSs(w.S) {
		if rs.Namespace != ns || rs.Labels[v1.ExtendedDaemonSetNameLabelKey] != name {
			continue
		}
		if rs.Name == e.Status.ActiveReplicaSet {
			active = rs
		} else if kit.MarkerOfTemplate(&rs.Spec.Template) == live && oracle.RSCond(rs, v1.ConditionTypeCanaryFailed) {
			failed = true
		}
	}
	if failed && active != nil {
		return kit.MarkerOfTemplate(&active.Spec.Template), true
	}
	return live, false
}

func classify(why string) string {
	for _, k := range []string{"lacks a pod", "extra pod", "not ready", "wrong template", "terminating", "ineligible", "writes never stop"} {
		if strings.Contains(why, k) {
			return k
		}
	}
	return "other"
}

func (w *World) podSummary(ns, name string) []string {
	var out []string
	for _, p := range w.DaemonPods(ns, name) {
		out = append(out, fmt.Sprintf("%s node=%s tpl=%s phase=%s ready=%v term=%v", p.Name, kit.NodeOfPod(p), kit.MarkerOfPod(p), p.Status.Phase, kit.IsReady(p), p.DeletionTimestamp != nil))
	}
	return out
}

// finalOK checks the C02 final predicate; returns "" when it holds, else the first reason.
func (w *World) finalOK(ns, name, live string) string {
	e := kit.GetEDS(w.S, ns, name)
	if e == nil {
		return "EDS missing"
	}
	// the live template's pod spec decides eligibility
	var liveSpec *corev1.PodSpec
	if kit.MarkerOfTemplate(&e.Spec.Template) == live {
		liveSpec = &e.Spec.Template.Spec
	} else {
		for _, rs := range kit.RSs(w.S) {
			if rs.Namespace == ns && kit.MarkerOfTemplate(&rs.Spec.Template) == live {
				liveSpec = &rs.Spec.Template.Spec
			}
		}
	}
	if liveSpec == nil {
		return "no template for live marker " + live
	}
	byNode := map[string][]*corev1.Pod{}
	for _, p := range w.DaemonPods(ns, name) {
		if p.Status.Phase == corev1.PodUnknown {
			continue
		}
		byNode[kit.NodeOfPod(p)] = append(byNode[kit.NodeOfPod(p)], p)
	}
	for _, n := range kit.Nodes(w.S) {
		pods := byNode[n.Name]
		delete(byNode, n.Name)
		if !oracle.Eligible(n, liveSpec) {
			if len(pods) > 0 {
				return fmt.Sprintf("ineligible node %s still has pod %s", n.Name, pods[0].Name)
			}
			continue
		}
		switch {
		case len(pods) == 0:
			return "node " + n.Name + " lacks a pod"
		case len(pods) > 1:
			return "extra pod on node " + n.Name
		}
		p := pods[0]
		switch {
		case p.DeletionTimestamp != nil:
			return "pod terminating on " + n.Name
		case kit.MarkerOfPod(p) != live:
			return fmt.Sprintf("wrong template %s on %s (live %s)", kit.MarkerOfPod(p), n.Name, live)
		case !kit.IsReady(p):
			return "pod not ready on " + n.Name
		}
	}
	for node, pods := range byNode {
		if len(pods) > 0 {
			return fmt.Sprintf("extra pod %s for vanished/unknown node %q", pods[0].Name, node)
		}
	}
	return ""
}

// AtFixpoint evaluates the quiescent-state clauses (C14 counts, C04 label-off, C07 nodes restored).
func (m *Monitors) AtFixpoint(ns, name, live string, res ConvergeResult) {
	w := m.w
	ctx := w.Ctx
	ctx.Count("C02.fixpoints-reached")
	e := kit.GetEDS(w.S, ns, name)
	if e == nil {
		return
	}
	if w.LastErr["eds "+ns+"/"+name] != "" {
		// the ExtendedDaemonSet reconcile keeps returning an error (unsatisfiable canary node
		// selection): it returns before writing its status, so the quiescent-state clauses have
		// no written status to be judged on. Observed, counted, not judged.
		ctx.Count("C14.fixpoints-skipped-reconcile-error")
		return
	}
	ctx.Count("C14.fixpoints-judged")
	if w.HasOverrides {
		m.atFixpointOverrides(ns, name)
	}
	eligible, exist, ready, liveN := 0, 0, 0, 0
	for _, n := range kit.Nodes(w.S) {
		if oracle.Eligible(n, &e.Spec.Template.Spec) {
			eligible++
		}
	}
	for _, p := range w.DaemonPods(ns, name) {
		if p.Status.Phase == corev1.PodUnknown {
			continue
		}
		exist++
		if kit.IsReady(p) {
			ready++
		}
		if kit.MarkerOfPod(p) == live {
			liveN++
		}
		if p.Labels[v1.ExtendedDaemonSetReplicaSetCanaryLabelKey] != "" {
			// The controller removes the label during the five minutes after the replica set became
			// active. Judged when that happened during this cooperative phase (rounds a few seconds
			// apart); a promotion during the hostile part may have been followed by an arbitrary jump of
			// the clock with no sync at all (controller not running), which is not a reconcile order.
			rs := kit.GetRS(w.S, ns, p.Labels[v1.ExtendedDaemonSetReplicaSetNameLabelKey])
			var act *v1.ExtendedDaemonSetReplicaSetCondition
			if rs != nil {
				act = kit.Cond(&rs.Status, v1.ConditionTypeActive)
			}
			if act == nil || act.Status != corev1.ConditionTrue || act.LastTransitionTime.Time.Before(w.phaseStart) {
				ctx.Count("C04.label-off-skipped-promoted-before-phase")
			} else {
				m.viol("C04", "C04.label-off", nil, nil, map[string]any{"pod": p.Name, "activeSince": act.LastTransitionTime.Time.String(), "phaseStart": w.phaseStart.String()})
			}
		}
	}
	st := e.Status
	d := map[string]any{"status": fmt.Sprintf("desired=%d current=%d ready=%d available=%d upToDate=%d state=%s", st.Desired, st.Current, st.Ready, st.Available, st.UpToDate, st.State),
		"eligibleNodes": eligible, "podsExisting": exist, "podsReady": ready, "podsLive": liveN, "resolution": res.Resolution}
	attrs := map[string]string{"resolution": res.Resolution}
	// one more EDS reconcile may be needed for the status to catch the last RS status: the
	// fixpoint was held for three rounds, so it must already be settled
	if int(st.Desired) != eligible {
		m.viol("C14", "C14.fixpoint-counts", merge(attrs, "field", "desired"), nil, d)
	}
	if int(st.Current) != exist {
		m.viol("C14", "C14.fixpoint-counts", merge(attrs, "field", "current"), nil, d)
	}
	if int(st.Ready) != ready || int(st.Available) != ready {
		m.viol("C14", "C14.fixpoint-counts", merge(attrs, "field", "ready/available"), nil, d)
	}
	if int(st.UpToDate) != liveN {
		m.viol("C14", "C14.fixpoint-counts", merge(attrs, "field", "upToDate"), nil, d)
	}
	if st.Canary != nil {
		if strings.Contains(w.LastErr["eds "+ns+"/"+name], "unable to select enough node") {
			ctx.Count("C02.excluded-unsatisfiable-canary")
		} else {
			m.viol("C02", "C02.canary-left-open", attrs, nil, d)
		}
	}
	if res.Resolution == "kubectl-fail" || res.Resolution == "already-failed" {
		ctx.Count("C07.rollback-fixpoints-judged")
		if kit.MarkerOfTemplate(&e.Spec.Template) != live {
			m.viol("C07", "C07.nodes-restored", merge(attrs, "cause", "spec-not-restored"), nil, d)
			byCmd := res.Resolution == "kubectl-fail"
			for k := range m.failedByCmd {
				if strings.HasPrefix(k, ns+"/"+name+"-") {
					byCmd = true // an earlier `canary fail` of this history acted on one of its replica sets
				}
			}
			if byCmd {
				// "fail leads to the rollback": the command acted and cooperative reconciliation has gone quiet,
				// yet spec.template is still the failed one
				m.viol("C19", "C19.fail-leads-to-rollback", merge(attrs, "cause", "spec-not-restored-at-fixpoint"), nil, d)
			}
		}
	}
}

// RetentionPhase: after a rollback fixpoint, the failed replica set must still exist before
// two minutes have passed since failure and be gone (it reports no pods) a bounded number of
// rounds after.
func (w *World) RetentionPhase(ns, name string) {
	var failed []*v1.ExtendedDaemonSetReplicaSet
	for _, rs := range kit.RSs(w.S) {
		if rs.Namespace == ns && rs.Labels[v1.ExtendedDaemonSetNameLabelKey] == name && oracle.RSCond(rs, v1.ConditionTypeCanaryFailed) {
			failed = append(failed, rs)
		}
	}
	if len(failed) == 0 {
		return
	}
	w.Ctx.Count("C07.retention-phases")
	w.Advance(3 * time.Minute)
	for i := 0; i < 8; i++ {
		w.Round(11 * time.Second)
	}
	for _, rs := range failed {
		if w.S.Peek(simapi.KindERS, rs.Namespace, rs.Name) != nil {
			e := kit.GetEDS(w.S, ns, name)
			if e != nil && (e.Status.ActiveReplicaSet == rs.Name || kit.MarkerOfTemplate(&e.Spec.Template) == kit.MarkerOfTemplate(&rs.Spec.Template)) {
				continue // in use again (re-applied template): must not be collected
			}
			w.Mon.viol("C07", "C07.failed-rs-collected", nil, nil, map[string]any{"rs": rs.Name})
		}
	}
}

// canarySelectorMatches: the node's labels satisfy the canary node selector (absent or unusable: every node).
func canarySelectorMatches(ls *metav1.LabelSelector, lbls map[string]string) bool {
	if ls == nil {
		return true
	}
	sel, err := metav1.LabelSelectorAsSelector(ls)
	if err != nil {
		return true
	}
	return sel.Matches(labels.Set(lbls))
}

func selectorMatches(sel, lbls map[string]string) bool {
	for k, v := range sel {
		if lv, has := lbls[k]; !has || lv != v {
			return false
		}
	}
	return true
}

// CanarySteadyState: with a canary held open (manual validation, not paused, not failed), the
// cooperative kubelet runs for a bounded number of rounds; then every eligible non-canary node
// must run a Ready pod of the active template, every eligible canary node a Ready pod of the
// new template carrying the canary label, and no pod of the new template may exist elsewhere.
func (w *World) CanarySteadyState(ns, name string) {
	in, active, up := w.CanaryInProgress(ns, name)
	e := kit.GetEDS(w.S, ns, name)
	if !in || e == nil || active == nil || up == nil || e.Status.Canary == nil || e.Status.Canary.ReplicaSet != up.Name {
		return
	}
	c := e.Spec.Strategy.Canary
	if c.ValidationMode != v1.ExtendedDaemonSetSpecStrategyCanaryValidationModeManual {
		return
	}
	if oracle.RSCond(up, v1.ConditionTypeCanaryFailed) {
		return
	}
	ann := e.Annotations
	for _, k := range []string{v1.ExtendedDaemonSetRollingUpdatePausedAnnotationKey, v1.ExtendedDaemonSetRolloutFrozenAnnotationKey, v1.ExtendedDaemonSetCanaryPausedAnnotationKey} {
		if _, ok := ann[k]; ok {
			w.Annotate(ns, name, k, "")
		}
	}
	w.Coop = true
	w.tracef("--- canary steady-state phase for %s/%s ---", ns, name)
	w.forgetFailedPodBackoff(ns, name)
	if oracle.RSCond(up, v1.ConditionTypeCanaryPaused) {
		if err := w.Kubectl("canary-unpause", ns, name); err != nil {
			return
		}
	}
	nNodes := len(kit.Nodes(w.S))
	bound := 12 + 8*nNodes
	check := func() string {
		e := kit.GetEDS(w.S, ns, name)
		in, active, up := w.CanaryInProgress(ns, name)
		if e == nil || !in || e.Status.Canary == nil || up == nil || active == nil {
			return "canary no longer in progress"
		}
		canary := map[string]bool{}
		for _, n := range e.Status.Canary.Nodes {
			canary[n] = true
		}
		am, um := kit.MarkerOfTemplate(&active.Spec.Template), kit.MarkerOfTemplate(&up.Spec.Template)
		byNode := map[string][]*corev1.Pod{}
		for _, p := range w.DaemonPods(ns, name) {
			if p.Status.Phase != corev1.PodUnknown {
				byNode[kit.NodeOfPod(p)] = append(byNode[kit.NodeOfPod(p)], p)
			}
		}
		for _, n := range kit.Nodes(w.S) {
			pods := byNode[n.Name]
			if canary[n.Name] {
				if !oracle.Eligible(n, &up.Spec.Template.Spec) {
					continue
				}
				if len(pods) != 1 || kit.MarkerOfPod(pods[0]) != um || !kit.IsReady(pods[0]) {
					return "canary node " + n.Name + " not served by a Ready pod of the new template"
				}
				if pods[0].Labels[v1.ExtendedDaemonSetReplicaSetCanaryLabelKey] != v1.ExtendedDaemonSetReplicaSetCanaryLabelValue {
					return "label-on: canary pod on " + n.Name + " lacks the canary label"
				}
				continue
			}
			for _, p := range pods {
				if kit.MarkerOfPod(p) == um && um != am {
					return "confinement: pod of the new template on non-canary node " + n.Name
				}
			}
			if !oracle.Eligible(n, &active.Spec.Template.Spec) {
				continue
			}
			if len(pods) != 1 || kit.MarkerOfPod(pods[0]) != am || !kit.IsReady(pods[0]) || pods[0].DeletionTimestamp != nil {
				return "others-served: non-canary node " + n.Name + " not served by a Ready pod of the active template"
			}
		}
		return ""
	}
	why := "not run"
	for i := 0; i < bound; i++ {
		w.Round(2 * time.Second)
		if why = check(); why == "" {
			break
		}
		if why == "canary no longer in progress" {
			return
		}
	}
	if _, _, upNow := w.CanaryInProgress(ns, name); why != "" && upNow != nil && (oracle.RSCond(upNow, v1.ConditionTypeCanaryPaused) || oracle.RSCond(upNow, v1.ConditionTypeCanaryFailed)) {
		// pods that restarted during the hostile phase legitimately auto-paused / auto-failed the canary meanwhile
		w.Ctx.Count("C04.steady-excluded-auto-paused-or-failed")
		return
	}
	w.Ctx.Count("C04.canary-steady-states-judged")
	if why != "" {
		if strings.Contains(w.LastErr["eds "+ns+"/"+name], "unable to select enough node") {
			w.Ctx.Count("C04.excluded-unsatisfiable-canary")
			return
		}
		rule := "C04.others-served"
		if strings.HasPrefix(why, "label-on") {
			rule = "C04.label-on"
		} else if strings.HasPrefix(why, "confinement") {
			rule = "C04.confined-create"
		} else if strings.HasPrefix(why, "canary node") {
			rule = "C04.canary-nodes-served"
		}
		ee := kit.GetEDS(w.S, ns, name)
		_, _, upNow := w.CanaryInProgress(ns, name)
		conds := ""
		if upNow != nil {
			conds = fmt.Sprintf("%s: %+v", upNow.Name, upNow.Status.Conditions)
		}
		w.Mon.viol("C04", rule, map[string]string{"phase": "steady-state"}, nil, map[string]any{"why": why, "bound": bound, "pods": w.podSummary(ns, name),
			"eds-annotations": ee.Annotations, "eds-status": fmt.Sprintf("state=%s canary=%+v", ee.Status.State, ee.Status.Canary), "canary-rs-conditions": conds})
		return
	}
	// "every other eligible node keeps being served with the active template", also when the pod of such a node fails
	// during the canary and the canary replica set happens to sync before the active one every time
	e = kit.GetEDS(w.S, ns, name)
	_, active, up = w.CanaryInProgress(ns, name)
	if e == nil || e.Status.Canary == nil || active == nil || up == nil {
		return
	}
	isCanary := map[string]bool{}
	for _, n := range e.Status.Canary.Nodes {
		isCanary[n] = true
	}
	var victim *corev1.Pod
	for _, p := range w.DaemonPods(ns, name) {
		if n := kit.NodeOfPod(p); !isCanary[n] && kit.IsReady(p) && p.DeletionTimestamp == nil && kit.MarkerOfPod(p) == kit.MarkerOfTemplate(&active.Spec.Template) {
			if victim == nil || p.Name < victim.Name {
				victim = p
			}
		}
	}
	if victim == nil {
		return
	}
	w.S.Mutate(simapi.KindPod, victim.Namespace, victim.Name, func(o client.Object) {
		pp := o.(*corev1.Pod)
		pp.Status.Phase = corev1.PodFailed
		pp.Status.Reason = "Evicted"
		setPodCond(pp, corev1.PodCondition{Type: corev1.PodReady, Status: corev1.ConditionFalse, LastTransitionTime: metav1.NewTime(w.Now())})
	})
	w.tracef("env: pod %s on non-canary node %s evicted (Failed) during the canary", victim.Name, kit.NodeOfPod(victim))
	why = "not run"
	for i := 0; i < 60; i++ {
		w.Advance(2 * time.Second)
		w.Reconcile("ers", ns, up.Name)
		w.Reconcile("ers", ns, active.Name)
		w.Reconcile("eds", ns, name)
		w.KubeletStep()
		w.KubeletStep()
		if why = check(); why == "" || why == "canary no longer in progress" {
			break
		}
	}
	if why == "canary no longer in progress" {
		return
	}
	if _, _, upNow := w.CanaryInProgress(ns, name); upNow != nil && (oracle.RSCond(upNow, v1.ConditionTypeCanaryPaused) || oracle.RSCond(upNow, v1.ConditionTypeCanaryFailed)) {
		return
	}
	w.Ctx.Count("C04.steady-failed-pod-phases-judged")
	if why != "" && strings.HasPrefix(why, "others-served") {
		w.Mon.viol("C04", "C04.others-served", map[string]string{"phase": "pod-failed-during-canary"}, nil, map[string]any{"why": why, "rounds": 60, "evicted": victim.Name, "pods": w.podSummary(ns, name)})
	}
}

// CanaryUnresponsiveNode (after the steady-state phase, same premises: a canary held open by manual validation,
// neither paused nor failed): the pod of one canary node is deleted and the kubelet of that node never confirms the
// termination, so the pod stays terminating far beyond its grace period. The node is as eligible as before: the
// canary replica set keeps desiring a pod there (judged on every one of its status writes by C14.rs-desired) and the
// ExtendedDaemonSet's desired keeps counting every eligible node.
func (w *World) CanaryUnresponsiveNode(ns, name string) {
	in, active, up := w.CanaryInProgress(ns, name)
	e := kit.GetEDS(w.S, ns, name)
	if !in || e == nil || active == nil || up == nil || e.Status.Canary == nil || e.Status.Canary.ReplicaSet != up.Name {
		return
	}
	if e.Spec.Strategy.Canary.ValidationMode != v1.ExtendedDaemonSetSpecStrategyCanaryValidationModeManual ||
		oracle.RSCond(up, v1.ConditionTypeCanaryFailed) || oracle.RSCond(up, v1.ConditionTypeCanaryPaused) {
		return
	}
	isCanary := map[string]bool{}
	for _, n := range e.Status.Canary.Nodes {
		isCanary[n] = true
	}
	um := kit.MarkerOfTemplate(&up.Spec.Template)
	var victim *corev1.Pod
	for _, p := range w.DaemonPods(ns, name) {
		if isCanary[kit.NodeOfPod(p)] && kit.IsReady(p) && p.DeletionTimestamp == nil && kit.MarkerOfPod(p) == um && (victim == nil || p.Name < victim.Name) {
			victim = p
		}
	}
	if victim == nil {
		return
	}
	node := kit.NodeOfPod(victim)
	w.Coop = true
	if w.ForceStuck == nil {
		w.ForceStuck = map[string]bool{}
	}
	w.ForceStuck[node] = true
	w.tracef("--- canary node %s becomes unresponsive: its pod %s is deleted and stays terminating ---", node, victim.Name)
	w.DeletePod(victim)
	for i := 0; i < 8; i++ {
		w.Advance(20 * time.Second)
		w.Reconcile("ers", ns, up.Name)
		w.Reconcile("ers", ns, active.Name)
		w.Reconcile("eds", ns, name)
		w.KubeletStep()
	}
	defer func() {
		delete(w.ForceStuck, node)
		w.KubeletStep()
	}()
	e = kit.GetEDS(w.S, ns, name)
	in, active, up = w.CanaryInProgress(ns, name)
	if e == nil || !in || active == nil || up == nil || e.Status.Canary == nil || w.LastErr["eds "+ns+"/"+name] != "" ||
		oracle.RSCond(up, v1.ConditionTypeCanaryFailed) || oracle.RSCond(up, v1.ConditionTypeCanaryPaused) {
		return
	}
	stillThere := false
	for _, p := range w.DaemonPods(ns, name) {
		if p.Name == victim.Name && p.DeletionTimestamp != nil {
			stillThere = true
		}
	}
	if !stillThere {
		return
	}
	isCanary = map[string]bool{}
	for _, n := range e.Status.Canary.Nodes {
		isCanary[n] = true
	}
	want := 0
	for _, n := range kit.Nodes(w.S) {
		tpl := &active.Spec.Template
		if isCanary[n.Name] {
			tpl = &up.Spec.Template
		}
		if oracle.Eligible(n, &tpl.Spec) {
			want++
		}
	}
	w.Ctx.Count("C14.canary-unresponsive-node-phases-judged")
	if int(e.Status.Desired) < want {
		w.Mon.viol("C14", "C14.fixpoint-counts", map[string]string{"field": "desired", "phase": "canary-node-unresponsive"}, nil, map[string]any{"desired": e.Status.Desired, "eligibleNodes": want,
			"unresponsiveCanaryNode": node, "terminatingPod": victim.Name, "eds-status": fmt.Sprintf("%+v", e.Status), "pods": w.podSummary(ns, name)})
	}
}
