package sim

import (
	"fmt"
	"sort"
	"time"

	metav1 "k8s.io/apimachinery/pkg/apis/meta/v1"
	"sigs.k8s.io/controller-runtime/pkg/client"

	v1 "github.com/DataDog/extendeddaemonset/api/v1alpha1"

	"vh/core"
	"vh/kit"
	"vh/simapi"
)

// C14Scale: the quiescent-state clause of C14 on clusters of 40 to 257 nodes. A first deployment that may create
// every pod at once is brought to rest with a cooperative kubelet, the rolling update is then paused (so that
// nothing may be replaced any more) and the counters of the ExtendedDaemonSet and of its active replica set are
// compared with the pods that exist and are Ready.
type C14Scale struct{}

func (e *C14Scale) Name() string { return "sim.c14-scale" }
func (e *C14Scale) Rule() string {
	return "first deployment on {40, 64, 65, 101, 130, 257} nodes, and on 6 nodes half of which carry a resources override for a container the template lacks, in both node-assignment modes, brought to rest, then rolling-update-paused; desired/current/ready/available/upToDate of the ExtendedDaemonSet and desired/current/ready/available of the active replica set must equal the number of nodes, all of which carry one Ready pod of the template, and three further rounds must create and delete nothing; non-trivial = distinct (node count, mode)"
}
func (e *C14Scale) Cases(tier string, _ int64) int {
	if tier == "thorough" {
		return 56
	}
	return 14
}
func (e *C14Scale) Floors(string) map[string]int {
	return map[string]int{"C14.scale-fixpoints-judged": 10}
}

func (e *C14Scale) Run(ctx *core.Ctx, idx int) {
	sizes := []int{40, 64, 65, 101, 130, 257, 6}
	n := sizes[idx%len(sizes)]
	aff := (idx/len(sizes))%2 == 0
	staleOverride := n == 6
	w := NewWorld(ctx, kit.CtlOpts{Affinity: aff})
	w.MaxTrace = 200
	for i := 0; i < n; i++ {
		nd := kit.Node(fmt.Sprintf("n%03d", i), map[string]string{"zone": []string{"a", "b", "c"}[i%3]})
		if staleOverride && i%2 == 0 {
			// a resources override left on the node for a container the template does not (or no longer) have
			nd.Annotations = map[string]string{fmt.Sprintf(v1.ExtendedDaemonSetRessourceNodeAnnotationKey, "ns1", "foo", "sidecar"): `{"requests":{"cpu":"1"}}`}
		}
		w.AddNode(nd)
	}
	ed := &v1.ExtendedDaemonSet{ObjectMeta: metav1.ObjectMeta{Namespace: "ns1", Name: "foo"}}
	ed.Spec.Template = kit.Tpl("A")
	ed.Spec.Strategy.ReconcileFrequency = &metav1.Duration{Duration: time.Second}
	ed.Spec.Strategy.RollingUpdate.MaxUnavailable = kit.PS("100%")
	ed.Spec.Strategy.RollingUpdate.SlowStartAdditiveIncrease = kit.IS(1000)
	mp := int32(1000)
	ed.Spec.Strategy.RollingUpdate.MaxParallelPodCreation = &mp
	w.CreateEDS(ed)
	w.Coop = true
	for i := 0; i < 8; i++ {
		w.Round(2 * time.Second)
	}
	w.S.Mutate(simapi.KindEDS, "ns1", "foo", func(o client.Object) {
		if o.GetAnnotations() == nil {
			o.SetAnnotations(map[string]string{})
		}
		o.GetAnnotations()[v1.ExtendedDaemonSetRollingUpdatePausedAnnotationKey] = "true"
	})
	names := func() []string {
		var out []string
		for _, p := range w.DaemonPods("ns1", "foo") {
			out = append(out, p.Name)
		}
		sort.Strings(out)
		return out
	}
	for i := 0; i < 3; i++ {
		w.Round(2 * time.Second)
	}
	before := names()
	ready, perNode := 0, map[string]int{}
	for _, p := range w.DaemonPods("ns1", "foo") {
		if p.DeletionTimestamp == nil {
			perNode[kit.NodeOfPod(p)]++
			if kit.IsReady(p) && kit.MarkerOfPod(p) == "A" {
				ready++
			}
		}
	}
	ctx.Distinct("nontrivial", fmt.Sprintf("%d|%v", n, aff))
	attrs := map[string]string{"nodes": fmt.Sprint(n), "affinityMode": fmt.Sprint(aff)}
	if len(perNode) != n || ready != n {
		// the deployment did not come to rest with one Ready pod per node: that is C02's business
		ctx.Count("C14.scale-not-at-rest")
		return
	}
	ctx.Count("C14.scale-fixpoints-judged")
	ctx.Count("evaluations")
	e0 := kit.GetEDS(w.S, "ns1", "foo")
	st := e0.Status
	if int(st.Desired) != n || int(st.Current) != n || int(st.Ready) != n || int(st.Available) != n || int(st.UpToDate) != n {
		w.Mon.viol("C14", "C14.quiescent-counts", merge(attrs, "object", "ExtendedDaemonSet"), nil, map[string]any{"status": fmt.Sprintf("desired=%d current=%d ready=%d available=%d upToDate=%d", st.Desired, st.Current, st.Ready, st.Available, st.UpToDate), "ready-pods-of-the-template": ready, "nodes": n})
	}
	for _, rs := range kit.RSs(w.S) {
		if rs.Name != st.ActiveReplicaSet {
			continue
		}
		r := rs.Status
		if int(r.Desired) != n || int(r.Current) != n || int(r.Ready) != n || int(r.Available) != n {
			w.Mon.viol("C14", "C14.quiescent-counts", merge(attrs, "object", "active-replicaset"), nil, map[string]any{"status": fmt.Sprintf("desired=%d current=%d ready=%d available=%d", r.Desired, r.Current, r.Ready, r.Available), "ready-pods-of-the-template": ready, "nodes": n})
		}
	}
	for i := 0; i < 3; i++ {
		w.Round(2 * time.Second)
	}
	if after := names(); fmt.Sprint(after) != fmt.Sprint(before) {
		w.Mon.viol("C14", "C14.quiescent-counts", merge(attrs, "object", "pods-changed-at-rest"), nil, map[string]any{"before": len(before), "after": len(after)})
	}
}
