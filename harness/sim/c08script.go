package sim

import (
	"fmt"
	"time"

	corev1 "k8s.io/api/core/v1"
	metav1 "k8s.io/apimachinery/pkg/apis/meta/v1"
	"sigs.k8s.io/controller-runtime/pkg/client"

	v1 "github.com/DataDog/extendeddaemonset/api/v1alpha1"

	"vh/core"
	"vh/kit"
	"vh/simapi"
)

// C08Script: bounded-progress clauses of C08 that the per-invocation monitors cannot see
// (something must still happen / must resume): scripted hold scenarios with seeded sizes,
// modes and reconcile orders, real reconcilers, real kubectl-eds bodies.
type C08Script struct{}

func (e *C08Script) Name() string { return "sim.c08-script" }
func (e *C08Script) Rule() string {
	return "scripted hold scenarios x seeded (3-6 nodes, assignment mode, maxUnavailable, reconcile order): {rolling update paused, rollout frozen, paused+frozen, canary paused before its first pod, canary paused after its pods, canary auto-paused by pod restarts and resumed by the user, canary paused by annotation before it starts} each followed by a node joining and cooperative rounds, then the release (unpause / unfreeze / canary unpause / validate) and convergence; judged: what must not happen while held, what must still happen while held (pods on new nodes when only paused), status.state, resumption within the round bound; non-trivial = distinct (scenario, nodes, mode, maxUnavailable) tuples"
}
func (e *C08Script) Cases(tier string, _ int64) int {
	if tier == "thorough" {
		return 3000
	}
	return 300
}
func (e *C08Script) Floors(string) map[string]int {
	return map[string]int{"C08.script-holds-judged": 200, "C08.script-releases-judged": 200}
}

func (e *C08Script) Run(ctx *core.Ctx, idx int) {
	r := ctx.Rand
	scen := []string{"paused", "frozen", "paused+frozen", "canary-paused-before-pods", "canary-paused-after-pods", "canary-auto-paused", "canary-paused-in-advance"}[idx%7]
	n := 3 + r.Intn(4)
	aff := r.Intn(2) == 0
	mu := 1 + r.Intn(2)
	w := NewWorld(ctx, kit.CtlOpts{Affinity: aff})
	for i := 0; i < n; i++ {
		w.AddNode(kit.Node(fmt.Sprintf("n%d", i), map[string]string{"zone": []string{"a", "b"}[i%2], "role": "agent"}))
	}
	ed := &v1.ExtendedDaemonSet{ObjectMeta: metav1.ObjectMeta{Namespace: "ns1", Name: "foo"}}
	ed.Spec.Template = kit.Tpl("A")
	ed.Spec.Strategy.ReconcileFrequency = &metav1.Duration{Duration: time.Second}
	ed.Spec.Strategy.RollingUpdate.MaxUnavailable = kit.IS(mu)
	ed.Spec.Strategy.RollingUpdate.SlowStartAdditiveIncrease = kit.IS(2)
	ed.Spec.Strategy.RollingUpdate.SlowStartIntervalDuration = &metav1.Duration{Duration: time.Second}
	canary := scen == "canary-paused-before-pods" || scen == "canary-paused-after-pods" || scen == "canary-auto-paused" || scen == "canary-paused-in-advance"
	if canary {
		ed.Spec.Strategy.Canary = &v1.ExtendedDaemonSetSpecStrategyCanary{Replicas: kit.IS(1 + r.Intn(2)), ValidationMode: v1.ExtendedDaemonSetSpecStrategyCanaryValidationModeManual}
		if scen != "canary-auto-paused" && r.Intn(3) == 0 {
			// auto validation with a canary duration of zero (legal): time alone never ends such a canary, and
			// certainly not a paused one; the script ends it by explicit validation like the manual ones
			ed.Spec.Strategy.Canary.ValidationMode = v1.ExtendedDaemonSetSpecStrategyCanaryValidationModeAuto
			ed.Spec.Strategy.Canary.Duration = &metav1.Duration{Duration: 0}
		}
	}
	w.CreateEDS(ed)
	w.Coop = true
	for i := 0; i < 10+2*n; i++ {
		w.Round(2 * time.Second)
	}
	if w.finalOK("ns1", "foo", "A") != "" {
		ctx.Count("C08.script-setup-failed")
		return
	}
	ctx.Distinct("nontrivial", fmt.Sprintf("%s|%d|%v|%d", scen, n, aff, mu))
	desc := map[string]any{"scenario": scen, "nodes": n, "affinityMode": aff, "maxUnavailable": mu}
	attrs := map[string]string{"scenario": scen}
	fail := func(rule, why string) {
		w.Mon.viol("C08", rule, attrs, nil, map[string]any{"case": desc, "why": why, "pods": w.podSummary("ns1", "foo"), "state": string(kit.GetEDS(w.S, "ns1", "foo").Status.State)})
	}
	countTpl := func(marker string) (ready int, onNode map[string]string) {
		onNode = map[string]string{}
		for _, p := range w.DaemonPods("ns1", "foo") {
			if p.DeletionTimestamp == nil {
				onNode[kit.NodeOfPod(p)] = kit.MarkerOfPod(p)
			}
			if kit.MarkerOfPod(p) == marker && kit.IsReady(p) && p.DeletionTimestamp == nil {
				ready++
			}
		}
		return
	}
	rounds := func(k int) {
		for i := 0; i < k; i++ {
			w.Round(2 * time.Second)
		}
	}
	newNode := func() {
		w.AddNode(kit.Node("late", map[string]string{"zone": "a", "role": "agent"}))
	}
	state := func() v1.ExtendedDaemonSetStatusState { return kit.GetEDS(w.S, "ns1", "foo").Status.State }
	bound := 12 + 4*(n+1)*2

	switch scen {
	case "paused", "frozen", "paused+frozen":
		if scen != "frozen" {
			if err := w.Kubectl("pause-rolling-update", "ns1", "foo"); err != nil {
				fail("C08.script-command", "pause-rolling-update refused: "+err.Error())
				return
			}
		}
		if scen != "paused" {
			if err := w.Kubectl("freeze-rollout", "ns1", "foo"); err != nil {
				fail("C08.script-command", "freeze-rollout refused: "+err.Error())
				return
			}
		}
		w.SetTemplate("ns1", "foo", kit.Tpl("B"))
		newNode()
		rounds(10)
		ctx.Count("C08.script-holds-judged")
		_, onNode := countTpl("B")
		for i := 0; i < n; i++ {
			if onNode[fmt.Sprintf("n%d", i)] != "A" {
				fail("C08.held-no-update", fmt.Sprintf("pod on n%d was replaced or removed while held (now %q)", i, onNode[fmt.Sprintf("n%d", i)]))
				break
			}
		}
		switch scen {
		case "paused":
			if onNode["late"] == "" {
				fail("C08.paused-still-creates", "a node that joined while the rolling update is paused got no pod")
			}
			if state() != v1.ExtendedDaemonSetStatusStateRollingUpdatePaused {
				fail("C08.state-reflects-pause", "state is "+string(state()))
			}
		default:
			if onNode["late"] != "" {
				fail("C08.frozen-no-create", "a pod was created on a node that joined while the rollout is frozen")
			}
			if state() != v1.ExtendedDaemonSetStatusStateRolloutFrozen {
				fail("C08.state-reflects-pause", "state is "+string(state()))
			}
		}
		// release: through the command (sets the annotation to "false"), by setting it to "false" by
		// hand, or by removing it ("resumes once its annotation is removed or set to false")
		how := []string{"command", "set-false", "removed"}[r.Intn(3)]
		attrs["release"] = how
		release := func(cmd, key string) {
			switch how {
			case "command":
				_ = w.Kubectl(cmd, "ns1", "foo")
			case "set-false":
				w.Annotate("ns1", "foo", key, "false")
			default:
				w.Annotate("ns1", "foo", key, "")
			}
		}
		if scen != "frozen" {
			release("unpause-rolling-update", v1.ExtendedDaemonSetRollingUpdatePausedAnnotationKey)
		}
		if scen != "paused" {
			release("unfreeze-rollout", v1.ExtendedDaemonSetRolloutFrozenAnnotationKey)
		}
		ok := false
		for i := 0; i < bound; i++ {
			w.Round(2 * time.Second)
			if w.finalOK("ns1", "foo", "B") == "" {
				ok = true
				break
			}
		}
		ctx.Count("C08.script-releases-judged")
		if !ok {
			fail("C08.resumes-after-release", w.finalOK("ns1", "foo", "B"))
		}
	case "canary-paused-before-pods", "canary-paused-after-pods":
		w.SetTemplate("ns1", "foo", kit.Tpl("B"))
		w.Reconcile("eds", "ns1", "foo")
		w.Reconcile("eds", "ns1", "foo")
		w.Reconcile("eds", "ns1", "foo")
		if scen == "canary-paused-after-pods" {
			rounds(6)
		}
		e0 := kit.GetEDS(w.S, "ns1", "foo")
		if e0.Status.Canary == nil {
			ctx.Count("C08.script-setup-failed")
			return
		}
		wantCanary := len(e0.Status.Canary.Nodes)
		before, _ := countTpl("B")
		nB := func() int {
			k := 0
			for _, p := range w.DaemonPods("ns1", "foo") {
				if kit.MarkerOfPod(p) == "B" {
					k++
				}
			}
			return k
		}
		b0 := nB()
		if err := w.Kubectl("canary-pause", "ns1", "foo"); err != nil {
			fail("C08.script-command", "canary-pause refused: "+err.Error())
			return
		}
		// a canary pod disappears while paused: it must not be re-created ("no additional canary pod")
		if scen == "canary-paused-after-pods" {
			for _, p := range w.DaemonPods("ns1", "foo") {
				if kit.MarkerOfPod(p) == "B" {
					w.DeletePod(p)
					break
				}
			}
		}
		rounds(10)
		w.Advance(20 * time.Minute) // elapsed time must not promote a paused canary
		rounds(3)
		ctx.Count("C08.script-holds-judged")
		if nB() > b0 {
			fail("C08.canary-paused-no-create", fmt.Sprintf("canary pods went from %d to %d while the canary was paused", b0, nB()))
		}
		if state() != v1.ExtendedDaemonSetStatusStateCanaryPaused {
			fail("C08.state-reflects-pause", "state is "+string(state())+" after canary pause")
		}
		if in, _, _ := w.CanaryInProgress("ns1", "foo"); !in {
			fail("C08.paused-canary-not-promoted", "the canary ended while paused")
			return
		}
		_ = before
		// resume on unpause
		if err := w.Kubectl("canary-unpause", "ns1", "foo"); err != nil {
			fail("C08.script-command", "canary-unpause refused: "+err.Error())
			return
		}
		ok := false
		for i := 0; i < bound; i++ {
			w.Round(2 * time.Second)
			if rdy, _ := countTpl("B"); rdy >= wantCanary && state() == v1.ExtendedDaemonSetStatusStateCanary {
				ok = true
				break
			}
		}
		ctx.Count("C08.script-releases-judged")
		if !ok {
			rdy, _ := countTpl("B")
			fail("C08.canary-resumes-on-unpause", fmt.Sprintf("%d Ready canary pods (want %d), state %s", rdy, wantCanary, state()))
			return
		}
		if r.Intn(2) == 0 {
			// paused a second time after the resume (the replica set now carries a Canary-Paused condition with status
			// False that the resume left behind): the same holds as for the first pause
			if err := w.Kubectl("canary-pause", "ns1", "foo"); err != nil {
				fail("C08.script-command", "second canary-pause refused: "+err.Error())
				return
			}
			for _, p := range w.DaemonPods("ns1", "foo") {
				if kit.MarkerOfPod(p) == "B" {
					w.DeletePod(p)
					break
				}
			}
			rounds(4)
			b1 := nB()
			rounds(6)
			w.Advance(20 * time.Minute)
			rounds(3)
			ctx.Count("C08.script-holds-judged")
			ctx.Count("C08.script-second-pauses-judged")
			if nB() > b1 {
				fail("C08.canary-paused-no-create", fmt.Sprintf("canary pods went from %d to %d during the second pause", b1, nB()))
			}
			if state() != v1.ExtendedDaemonSetStatusStateCanaryPaused {
				fail("C08.state-reflects-pause", "state is "+string(state())+" after the second canary pause")
			}
			if in, _, _ := w.CanaryInProgress("ns1", "foo"); !in {
				fail("C08.paused-canary-not-promoted", "the canary ended during the second pause")
				return
			}
			if err := w.Kubectl("canary-unpause", "ns1", "foo"); err != nil {
				fail("C08.script-command", "second canary-unpause refused: "+err.Error())
				return
			}
			rounds(6)
		}
		// explicit validation resumes the rollout
		if err := w.Kubectl("canary-validate", "ns1", "foo"); err != nil {
			fail("C08.script-command", "canary-validate refused: "+err.Error())
			return
		}
		ok = false
		for i := 0; i < bound; i++ {
			w.Round(2 * time.Second)
			if w.finalOK("ns1", "foo", "B") == "" {
				ok = true
				break
			}
		}
		if !ok {
			fail("C08.canary-resumes-on-validation", w.finalOK("ns1", "foo", "B"))
		}
	case "canary-paused-in-advance":
		// the pause annotation is already there when the template changes: the canary starts paused (whatever its
		// duration, zero included), creates nothing and is not promoted until the user releases and validates it
		w.S.Mutate(simapi.KindEDS, "ns1", "foo", func(o client.Object) {
			if o.GetAnnotations() == nil {
				o.SetAnnotations(map[string]string{})
			}
			o.GetAnnotations()[v1.ExtendedDaemonSetCanaryPausedAnnotationKey] = "true"
		})
		w.SetTemplate("ns1", "foo", kit.Tpl("B"))
		rounds(8)
		w.Advance(20 * time.Minute)
		rounds(3)
		ctx.Count("C08.script-holds-judged")
		if in, _, _ := w.CanaryInProgress("ns1", "foo"); !in {
			fail("C08.paused-canary-not-promoted", "a canary that was paused before it started has ended (state "+string(state())+")")
			return
		}
		if state() != v1.ExtendedDaemonSetStatusStateCanaryPaused {
			fail("C08.state-reflects-pause", "state is "+string(state())+" although canary-paused=true was set before the canary started")
		}
		if rdy, on := countTpl("B"); rdy > 0 || func() bool {
			for _, m := range on {
				if m == "B" {
					return true
				}
			}
			return false
		}() {
			fail("C08.canary-paused-no-create", "canary pods exist although the canary has been paused since before it started")
		}
		e0 := kit.GetEDS(w.S, "ns1", "foo")
		wantCanary := 0
		if e0.Status.Canary != nil {
			wantCanary = len(e0.Status.Canary.Nodes)
		}
		if err := w.Kubectl("canary-unpause", "ns1", "foo"); err != nil {
			fail("C08.script-command", "canary-unpause refused: "+err.Error())
			return
		}
		ok := false
		for i := 0; i < bound; i++ {
			w.Round(2 * time.Second)
			if rdy, _ := countTpl("B"); wantCanary > 0 && rdy >= wantCanary && state() == v1.ExtendedDaemonSetStatusStateCanary {
				ok = true
				break
			}
		}
		ctx.Count("C08.script-releases-judged")
		if !ok {
			rdy, _ := countTpl("B")
			fail("C08.canary-resumes-on-unpause", fmt.Sprintf("%d Ready canary pods (want %d), state %s", rdy, wantCanary, state()))
		}
	case "canary-auto-paused":
		// the canary pauses itself because a canary pod restarted more often than autoPause.maxRestarts allows
		// (and less often than autoFail.maxRestarts); the user then resumes it while that pod still exists
		w.SetTemplate("ns1", "foo", kit.Tpl("B"))
		w.Reconcile("eds", "ns1", "foo")
		w.Reconcile("eds", "ns1", "foo")
		w.Reconcile("eds", "ns1", "foo")
		rounds(6)
		e0 := kit.GetEDS(w.S, "ns1", "foo")
		if e0.Status.Canary == nil || len(e0.Status.Canary.Nodes) == 0 {
			ctx.Count("C08.script-setup-failed")
			return
		}
		wantCanary := len(e0.Status.Canary.Nodes)
		restarted := false
		for _, p := range w.DaemonPods("ns1", "foo") {
			if kit.MarkerOfPod(p) == "B" && len(p.Status.ContainerStatuses) > 0 {
				w.S.Mutate(simapi.KindPod, p.Namespace, p.Name, func(o client.Object) {
					pp := o.(*corev1.Pod)
					pp.Status.ContainerStatuses[0].RestartCount = 3
					pp.Status.ContainerStatuses[0].LastTerminationState = corev1.ContainerState{Terminated: &corev1.ContainerStateTerminated{Reason: "Error", ExitCode: 1, FinishedAt: metav1.NewTime(w.Now())}}
				})
				restarted = true
				break
			}
		}
		if !restarted {
			ctx.Count("C08.script-setup-failed")
			return
		}
		rounds(4)
		ctx.Count("C08.script-holds-judged")
		if state() != v1.ExtendedDaemonSetStatusStateCanaryPaused {
			// whether three restarts pause the canary is C06's business; without a pause there is nothing to release
			ctx.Count("C08.script-auto-pause-did-not-fire")
			return
		}
		if r.Intn(2) == 0 {
			// the user switches auto-pause off in the spec and deletes the pod that restarted: the pause the replica
			// set recorded in its Canary-Paused condition holds until somebody unpauses or validates
			f := false
			w.S.Mutate(simapi.KindEDS, "ns1", "foo", func(o client.Object) {
				o.(*v1.ExtendedDaemonSet).Spec.Strategy.Canary.AutoPause = &v1.ExtendedDaemonSetSpecStrategyCanaryAutoPause{Enabled: &f}
			})
			w.tracef("user: set autoPause.enabled=false on ns1/foo while the canary is auto-paused")
			for _, p := range w.DaemonPods("ns1", "foo") {
				if kit.MarkerOfPod(p) == "B" && len(p.Status.ContainerStatuses) > 0 && p.Status.ContainerStatuses[0].RestartCount == 3 {
					w.S.Remove(simapi.KindPod, p.Namespace, p.Name)
					w.tracef("user: delete pod %s (removed at once)", p.Name)
				}
			}
			if (idx/7)%2 == 1 {
				// ... and the controller process restarts before the next sync: the pause is recorded in the replica
				// set's condition, not in the memory of the process that decided it
				w.Ctl.Rebuild()
				ctx.Count("C08.script-controller-restarted-while-auto-paused")
				w.tracef("*** controller process restarted while the canary is auto-paused")
			}
			nB := func() int {
				k := 0
				for _, p := range w.DaemonPods("ns1", "foo") {
					if kit.MarkerOfPod(p) == "B" && p.DeletionTimestamp == nil {
						k++
					}
				}
				return k
			}
			had := nB()
			rounds(3)
			w.Advance(time.Hour)
			rounds(3)
			ctx.Count("C08.script-holds-judged")
			ctx.Count("C08.script-auto-pause-switched-off-while-paused")
			if nB() > had {
				fail("C08.canary-paused-no-create", fmt.Sprintf("%d canary pods, %d when auto-pause was switched off", nB(), had))
				return
			}
			if state() != v1.ExtendedDaemonSetStatusStateCanaryPaused {
				fail("C08.state-reflects-pause", "state "+string(state())+" after auto-pause was switched off in the spec while the canary was auto-paused")
				return
			}
		}
		if err := w.Kubectl("canary-unpause", "ns1", "foo"); err != nil {
			fail("C08.script-command", "canary-unpause refused: "+err.Error())
			return
		}
		ok := false
		for i := 0; i < bound; i++ {
			w.Round(2 * time.Second)
			if rdy, _ := countTpl("B"); rdy >= wantCanary && state() == v1.ExtendedDaemonSetStatusStateCanary {
				ok = true
				break
			}
		}
		ctx.Count("C08.script-releases-judged")
		if !ok {
			rdy, _ := countTpl("B")
			fail("C08.canary-resumes-on-unpause", fmt.Sprintf("%d Ready canary pods (want %d), state %s, after the user unpaused an auto-paused canary", rdy, wantCanary, state()))
			return
		}
		// and it stays resumed: the same restart count must not pause it again
		rounds(4)
		if state() != v1.ExtendedDaemonSetStatusStateCanary {
			fail("C08.canary-resumes-on-unpause", "state went back to "+string(state())+" although nothing new happened after the unpause")
		}
	}
	_ = corev1.PodRunning
}
