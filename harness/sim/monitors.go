package sim

import (
	"fmt"
	apiequality "k8s.io/apimachinery/pkg/api/equality"
	"os"
	"sort"
	"strings"
	"time"

	corev1 "k8s.io/api/core/v1"
	metav1 "k8s.io/apimachinery/pkg/apis/meta/v1"
	"k8s.io/apimachinery/pkg/labels"
	"k8s.io/apimachinery/pkg/util/intstr"

	v1 "github.com/DataDog/extendeddaemonset/api/v1alpha1"

	"vh/kit"
	"vh/oracle"
	"vh/simapi"
)

// Monitors holds the online rules evaluated on every invocation record.
type Monitors struct {
	w *World
	// lastAction[rs key] = virtual time of the last invocation of that RS that issued pod
	// creates/deletes and whose status write succeeded (C09 spacing)
	lastAction map[string]time.Time
	// failedAt[rs key] = first time the RS was observed Canary-Failed (C07 retention)
	failedAt map[string]time.Time
	// created[pod key] = inputs digest at creation (C10 spurious replace)
	created map[string]*podInputs
	// failedByCmd[rs key]: Canary-Failed was set by a successful kubectl-eds canary fail
	failedByCmd map[string]bool
	// heldByCmd["ns/name|frozen"] / ["ns/name|paused"]: the annotation was last set by a successful kubectl-eds
	// freeze-rollout / pause-rolling-update (cleared by the opposite command)
	heldByCmd     map[string]bool
	templateEdits map[string]int
	// Disabled rules (prefix match), e.g. when a workload deliberately breaks a premise
	Disabled map[string]bool
	// faulted: the current run injects faults (rules that assume successful calls are relaxed)
	Faulted bool
	// RemapSafetyTo: report violations of the safety properties (C01, C03, C04, C05, C12 and
	// no-panic) under this property as well (C11)
	RemapSafetyTo string
	// Mute drops everything (baseline recording runs)
	Mute bool
}

var safetyProps = map[string]bool{"C01": true, "C03": true, "C04": true, "C05": true, "C12": true}

// NewMonitors builds the monitor set.
func NewMonitors(w *World) *Monitors {
	return &Monitors{w: w, lastAction: map[string]time.Time{}, failedAt: map[string]time.Time{}, created: map[string]*podInputs{}, failedByCmd: map[string]bool{}, heldByCmd: map[string]bool{}, templateEdits: map[string]int{}, Disabled: map[string]bool{}}
}

func (m *Monitors) viol(prop, rule string, attrs map[string]string, inv *simapi.Invocation, detail map[string]any) {
	if m.Mute || m.Disabled[rule] || m.Disabled[prop] {
		return
	}
	if m.RemapSafetyTo != "" && (safetyProps[prop] || strings.HasSuffix(rule, ".no-panic")) && prop != m.RemapSafetyTo {
		a2 := map[string]string{"rule": rule}
		for k, v := range attrs {
			a2[k] = v
		}
		defer m.viol(m.RemapSafetyTo, m.RemapSafetyTo+".safety", a2, inv, map[string]any{"original": rule})
	}
	if attrs == nil {
		attrs = map[string]string{}
	}
	if detail == nil {
		detail = map[string]any{}
	}
	if inv != nil {
		detail["invocation"] = describeInv(inv)
	}
	tr := m.w.Trace
	if len(tr) > 60 && os.Getenv("VH_TRACE") == "" {
		tr = tr[len(tr)-60:]
	}
	detail["trace_tail"] = tr
	m.w.Ctx.Violation(prop, rule, attrs, detail)
}

func describeInv(inv *simapi.Invocation) map[string]any {
	var calls []string
	for _, c := range inv.Calls {
		s := fmt.Sprintf("#%d %s %s %s/%s", c.Seq, c.Verb, c.Kind, c.NS, c.Name)
		if c.Selector != "" {
			s += " sel=" + c.Selector
		}
		if !c.IsWrite() {
			s += fmt.Sprintf(" -> %d obj", len(c.Objs))
		} else {
			s += " [" + c.Outcome + "] @" + c.Callsite
		}
		calls = append(calls, s)
	}
	return map[string]any{"controller": inv.Controller, "object": inv.NS + "/" + inv.Name, "vtime": time.Unix(0, inv.VTimeNanos).UTC().Format(time.RFC3339), "calls": calls, "result": inv.ResultStr, "err": fmt.Sprint(inv.Err), "panic": inv.Panic}
}

// OnTemplateEdit notes a user template edit.
func (m *Monitors) OnTemplateEdit(ns, name string) { m.templateEdits[ns+"/"+name]++ }

// OnCommand is called after a kubectl-eds command body ran.
func (m *Monitors) OnCommand(cmd, ns, name string, inv *simapi.Invocation, err error) {
	if cmd == "canary-fail" && err == nil {
		if e := kit.GetEDS(m.w.S, ns, name); e != nil && e.Status.Canary != nil {
			m.failedByCmd[ns+"/"+e.Status.Canary.ReplicaSet] = true
		}
	}
	if err == nil {
		switch cmd {
		case "freeze-rollout":
			m.heldByCmd[ns+"/"+name+"|frozen"] = true
		case "unfreeze-rollout":
			delete(m.heldByCmd, ns+"/"+name+"|frozen")
		case "pause-rolling-update":
			m.heldByCmd[ns+"/"+name+"|paused"] = true
		case "unpause-rolling-update":
			delete(m.heldByCmd, ns+"/"+name+"|paused")
		}
	}
	m.stickyFailed(inv)
}

// heldInterpreted: C19 "the controller's next reconciles interpret them as documented" for freeze-rollout and
// pause-rolling-update: a sync that read the annotation a successful command set and still creates (frozen) or
// deletes for updating (paused, frozen) does not.
func (m *Monitors) heldInterpreted(eds *v1.ExtendedDaemonSet, what, did string, inv *simapi.Invocation, d map[string]any) {
	if eds == nil || !m.heldByCmd[eds.Namespace+"/"+eds.Name+"|"+what] {
		return
	}
	cmd := map[string]string{"frozen": "freeze-rollout", "paused": "pause-rolling-update"}[what]
	m.viol("C19", "C19.hold-interpreted-as-documented", map[string]string{"command": cmd, "did": did}, inv, d)
}

// stickyFailed (store level, any actor): a write that takes Canary-Failed=True away from a replica
// set that is still the canary afterwards. C06: "once true it stays true while that replica set is
// the canary"; C19: a successful `canary fail` "leads to the rollback", so it must not get lost.
func (m *Monitors) stickyFailed(inv *simapi.Invocation) {
	for _, c := range inv.Calls {
		if c.Kind != simapi.KindERS || !c.IsWrite() || !c.Applied() || c.Pre == nil || c.Post == nil {
			continue
		}
		pre, post := c.Pre.(*v1.ExtendedDaemonSetReplicaSet), c.Post.(*v1.ExtendedDaemonSetReplicaSet)
		// C05: the promotion rule measures noRestartsDuration from the last canary pod restart the replica set has
		// recorded (Pod-Restarting condition, last update): a restart that happened does not un-happen when its pod
		// goes away, so the recorded instant never moves backwards while the condition stays
		if a, b := kit.Cond(&pre.Status, v1.ConditionTypePodRestarting), kit.Cond(&post.Status, v1.ConditionTypePodRestarting); a != nil && b != nil && a.Status == corev1.ConditionTrue && b.Status == corev1.ConditionTrue {
			m.w.Ctx.Count("C05.sim-restart-records-judged")
			if b.LastUpdateTime.Time.Before(a.LastUpdateTime.Time) {
				m.viol("C05", "C05.last-restart-forgotten", map[string]string{"sim": "true"}, inv, map[string]any{"rs": pre.Name, "recorded-before": a.LastUpdateTime.Time.UTC().Format(time.RFC3339), "recorded-after": b.LastUpdateTime.Time.UTC().Format(time.RFC3339), "callsite": c.Callsite})
			}
		}
		if !oracle.RSCond(pre, v1.ConditionTypeCanaryFailed) {
			continue
		}
		m.w.Ctx.Count("C06.sim-writes-to-failed-canary-judged")
		if oracle.RSCond(post, v1.ConditionTypeCanaryFailed) {
			continue
		}
		e := kit.GetEDS(m.w.S, pre.Namespace, pre.Labels[v1.ExtendedDaemonSetNameLabelKey])
		if e == nil || e.Status.Canary == nil || e.Status.Canary.ReplicaSet != pre.Name {
			continue
		}
		d := map[string]any{"rs": pre.Name, "write": c.Verb, "callsite": c.Callsite, "actor": c.Actor, "conditions-before": fmt.Sprintf("%+v", pre.Status.Conditions), "conditions-after": fmt.Sprintf("%+v", post.Status.Conditions)}
		byCmd := m.failedByCmd[pre.Namespace+"/"+pre.Name]
		m.viol("C06", "C06.failed-sticky", map[string]string{"set-by-command": fmt.Sprint(byCmd), "write": c.Verb}, inv, d)
		if byCmd {
			m.viol("C19", "C19.fail-not-lost", map[string]string{"write": c.Verb}, inv, d)
		}
		// C07: "when the canary replica set is marked failed, automatically or by the user, the controller
		// restores ...": a mark that is wiped out can never lead to the rollback
		m.viol("C07", "C07.failure-mark-kept", map[string]string{"set-by-command": fmt.Sprint(byCmd), "write": c.Verb}, inv, d)
	}
}

// ---- view extraction ---------------------------------------------------------------------------

// ERSView is the cluster as one replica-set invocation read it.
type ERSView struct {
	RS            *v1.ExtendedDaemonSetReplicaSet
	EDS           *v1.ExtendedDaemonSet
	Nodes         map[string]*corev1.Node
	Pods          []*corev1.Pod
	HasPods       bool // the invocation reached the pod listing
	Role          string
	Canary        map[string]bool
	FirstWriteSeq uint64
	PodListSeq    uint64                         // sequence number of the last pod listing before the first write
	Settings      []*v1.ExtendedDaemonsetSetting // as listed by the sync, in list order
	PodListFailed bool                           // a pod listing before the first write returned an error
	// SettingsListFailed: the listing of the settings returned an error (Settings then holds the stored ones)
	SettingsListFailed bool
}

func roleOf(eds *v1.ExtendedDaemonSet, rsName string) string {
	switch {
	case eds.Status.ActiveReplicaSet == "":
		return "unknown"
	case eds.Status.ActiveReplicaSet == rsName:
		return "active"
	case eds.Status.Canary != nil && eds.Status.Canary.ReplicaSet == rsName && eds.Spec.Strategy.Canary != nil:
		// (once the user has removed the canary strategy there is no canary to manage: the replica set
		// named by a not yet refreshed status.canary is in no role until the next EDS reconcile)
		return "canary"
	}
	return "unknown"
}

func ersView(inv *simapi.Invocation) *ERSView {
	v := &ERSView{Nodes: map[string]*corev1.Node{}, Canary: map[string]bool{}}
	seenPod := map[string]bool{}
	nodesSeen := false
	for _, c := range inv.Calls {
		if c.IsWrite() {
			if v.FirstWriteSeq == 0 {
				v.FirstWriteSeq = c.Seq
			}
			continue
		}
		if c.Err != nil {
			// (the canary-label clean-up list is not part of the view; calls of a stopped process are void)
			if c.Verb == "list" && c.Kind == simapi.KindPod && v.FirstWriteSeq == 0 && c.Outcome != simapi.OutVoid &&
				!strings.Contains(c.Selector, v1.ExtendedDaemonSetReplicaSetCanaryLabelKey) {
				v.PodListFailed = true
			}
			if c.Verb == "list" && c.Kind == simapi.KindSetting && v.Settings == nil && c.Outcome != simapi.OutVoid {
				// the listing of the settings was refused: a sync that goes on regardless is judged against the
				// settings that exist (it cannot know them, which is why it has to give up instead)
				v.SettingsListFailed = true
			}
			continue
		}
		switch {
		case c.Verb == "get" && c.Kind == simapi.KindERS && v.RS == nil && len(c.Objs) == 1:
			v.RS = c.Objs[0].(*v1.ExtendedDaemonSetReplicaSet)
		case c.Verb == "get" && c.Kind == simapi.KindEDS && v.EDS == nil && len(c.Objs) == 1:
			v.EDS = c.Objs[0].(*v1.ExtendedDaemonSet)
		case c.Verb == "list" && c.Kind == simapi.KindNode && !nodesSeen:
			nodesSeen = true
			for _, o := range c.Objs {
				v.Nodes[o.GetName()] = o.(*corev1.Node)
			}
		case c.Verb == "list" && c.Kind == simapi.KindSetting && v.Settings == nil:
			for _, o := range c.Objs {
				v.Settings = append(v.Settings, o.(*v1.ExtendedDaemonsetSetting))
			}
		case c.Verb == "list" && c.Kind == simapi.KindPod && v.FirstWriteSeq == 0:
			// pod lists read before the first write: daemon pods and old-DaemonSet pods.
			// (the canary-label clean-up list comes after the writes and is not part of the view)
			if strings.Contains(c.Selector, v1.ExtendedDaemonSetReplicaSetCanaryLabelKey) {
				continue
			}
			v.HasPods = true
			v.PodListSeq = c.Seq
			for _, o := range c.Objs {
				k := o.GetNamespace() + "/" + o.GetName()
				if !seenPod[k] {
					seenPod[k] = true
					v.Pods = append(v.Pods, o.(*corev1.Pod))
				}
			}
		}
	}
	if v.RS != nil && v.EDS != nil {
		v.Role = roleOf(v.EDS, v.RS.Name)
		if v.EDS.Status.Canary != nil {
			for _, n := range v.EDS.Status.Canary.Nodes {
				v.Canary[n] = true
			}
		}
	}
	return v
}

// rsOwnedBy: the replica set carries the ExtendedDaemonSet's name label and, when it has a
// controller owner reference, that reference names this ExtendedDaemonSet.
func rsOwnedBy(rs *v1.ExtendedDaemonSetReplicaSet, eds *v1.ExtendedDaemonSet) bool {
	if rs.Namespace != eds.Namespace || rs.Labels[v1.ExtendedDaemonSetNameLabelKey] != eds.Name {
		return false
	}
	for _, o := range rs.OwnerReferences {
		if o.Controller != nil && *o.Controller && (o.Name != eds.Name || (eds.UID != "" && o.UID != eds.UID)) {
			return false
		}
	}
	return true
}

// isDaemonPodOf: the pod belongs to the EDS per the statement (namespace + name label), or
// to the declared old DaemonSet.
func isDaemonPodOf(p *corev1.Pod, eds *v1.ExtendedDaemonSet) bool {
	if p.Namespace != eds.Namespace {
		return false
	}
	if p.Labels[v1.ExtendedDaemonSetNameLabelKey] == eds.Name {
		return true
	}
	if old, ok := eds.Annotations[v1.ExtendedDaemonSetOldDaemonsetAnnotationKey]; ok {
		for _, o := range p.OwnerReferences {
			if o.Kind == "DaemonSet" && o.Name == old {
				return true
			}
		}
	}
	return false
}

func podKey(p *corev1.Pod) string { return p.Namespace + "/" + p.Name }

// ---- dispatch ------------------------------------------------------------------------------------

// OnInvocation judges one reconcile.
func (m *Monitors) OnInvocation(out kit.Outcome) {
	inv := out.Inv
	ctx := m.w.Ctx
	ctx.Count("sim.invocations." + inv.Controller)
	ctx.Count("evaluations")
	for _, c := range inv.Calls {
		if c.IsWrite() {
			ctx.Count("sim.calls." + c.Verb + "." + c.Kind)
		}
	}
	if out.Panic != "" {
		m.viol("C16", "C16.reconcile-panic", map[string]string{"controller": inv.Controller, "panic": firstLine(out.Panic), "at": out.PanicAt}, inv, nil)
		m.viol(m.w.Ctx.Property, m.w.Ctx.Property+".no-panic", map[string]string{"controller": inv.Controller, "panic": firstLine(out.Panic)}, inv, nil)
		return
	}
	m.ownObjects(inv) // C12 on every controller
	m.stickyFailed(inv)
	switch inv.Controller {
	case "ers":
		m.onERS(inv, out)
	case "eds":
		m.onEDS(inv, out)
	case "podtemplate":
		m.onPodTemplate(inv, out)
	}
}

func firstLine(s string) string {
	if i := strings.Index(s, "\n"); i > 0 {
		s = s[:i]
	}
	if len(s) > 100 {
		s = s[:100]
	}
	return s
}

// ---- replica-set invocations: C01, C03, C04, C08, C09, C13(hash), C14(rs status) -------------------

func (m *Monitors) onERS(inv *simapi.Invocation, out kit.Outcome) {
	ctx := m.w.Ctx
	v := ersView(inv)
	if v.RS == nil || v.EDS == nil {
		return
	}
	if v.SettingsListFailed && v.Settings == nil {
		// the listing of the settings was refused: a sync that goes on regardless is judged against the settings
		// that exist (it cannot know them, which is why it has to give up instead)
		for _, o := range m.w.S.All(simapi.KindSetting) {
			if o.GetNamespace() == v.RS.Namespace {
				v.Settings = append(v.Settings, o.(*v1.ExtendedDaemonsetSetting))
			}
		}
		sort.Slice(v.Settings, func(i, j int) bool { return v.Settings[i].Name < v.Settings[j].Name })
	}
	rsTpl := &v.RS.Spec.Template
	role := v.Role
	ctx.Count("sim.ers-role." + role)
	if role == "canary" && oracle.RSCond(v.RS, v1.ConditionTypeCanaryFailed) {
		ctx.Count("C06.sim-syncs-of-failed-canary")
	}
	canaryInProgress := v.EDS.Status.Canary != nil
	upToDate := kit.MarkerOfTemplate(rsTpl) == kit.MarkerOfTemplate(&v.EDS.Spec.Template)

	// index pods as read, per node
	podsByNode := map[string][]*corev1.Pod{}
	for _, p := range v.Pods {
		if !isDaemonPodOf(p, v.EDS) {
			continue
		}
		if n := kit.NodeOfPod(p); n != "" {
			podsByNode[n] = append(podsByNode[n], p)
		}
	}
	eligible := func(node string) bool {
		n := v.Nodes[node]
		return n != nil && oracle.Eligible(n, &rsTpl.Spec)
	}

	createdOn := map[string]int{}
	deleted := map[string]*simapi.Call{}
	var updateDeletes, cleanupDeletes []*simapi.Call
	for _, c := range inv.Calls {
		if !c.IsWrite() || c.Kind != simapi.KindPod {
			continue
		}
		switch c.Verb {
		case "create":
			pod := c.Submitted.(*corev1.Pod)
			node := kit.NodeOfPod(pod)
			createdOn[node]++
			ctx.Count("C01.creates-judged")
			attrs := map[string]string{"role": role}
			d := map[string]any{"node": node, "pod-generateName": pod.GenerateName}
			if v.Nodes[node] == nil {
				m.viol("C01", "C01.create-eligible", merge(attrs, "cause", "node-not-in-view"), inv, d)
			} else if !eligible(node) {
				m.viol("C01", "C01.create-eligible", merge(attrs, "cause", "node-not-eligible"), inv, d)
			}
			for _, p := range podsByNode[node] {
				if p.Status.Phase != corev1.PodFailed && p.Status.Phase != corev1.PodUnknown {
					d["existing"] = podKey(p)
					d["existing-terminating"] = p.DeletionTimestamp != nil
					m.viol("C01", "C01.create-free", merge(attrs, "existing-terminating", fmt.Sprint(p.DeletionTimestamp != nil)), inv, d)
					break
				}
			}
			if createdOn[node] == 2 {
				m.viol("C01", "C01.create-once", attrs, inv, d)
			}
			// store level: a live pod this controller created earlier for the same ExtendedDaemonSet and node, which
			// was in the store when the sync listed the pods but which the listing did not return (it does not carry the
			// ExtendedDaemonSet's name label), is still a pod of the ExtendedDaemonSet the node carries
			for k, rec := range m.w.CreatedFor {
				if rec.EDS != v.EDS.Name || rec.Node != node || !strings.HasPrefix(k, v.EDS.Namespace+"/") || rec.Seq >= v.PodListSeq || v.PodListSeq == 0 {
					continue
				}
				o := m.w.S.Peek(simapi.KindPod, v.EDS.Namespace, strings.TrimPrefix(k, v.EDS.Namespace+"/"))
				if o == nil || string(o.GetUID()) != rec.UID {
					continue
				}
				p := o.(*corev1.Pod)
				if p.DeletionTimestamp != nil || p.Status.Phase == corev1.PodFailed || p.Status.Phase == corev1.PodUnknown || p.Labels[v1.ExtendedDaemonSetNameLabelKey] == v.EDS.Name {
					continue
				}
				d["existing"] = podKey(p)
				d["existing-labels"] = fmt.Sprint(p.Labels)
				m.viol("C01", "C01.create-free", merge(attrs, "cause", "own-pod-on-the-node-not-carrying-the-name-label"), inv, d)
				break
			}
			if c.Applied() && c.Post != nil {
				if m.w.CreatedFor == nil {
					m.w.CreatedFor = map[string]createdRec{}
				}
				m.w.CreatedFor[podKey(c.Post.(*corev1.Pod))] = createdRec{EDS: v.EDS.Name, Node: node, Seq: c.Seq, UID: string(c.Post.GetUID())}
			}
			if v.PodListFailed {
				// "creates a pod for a node only if, in the cluster state it read, that node ... carries
				// no pod": the pod listing of this sync failed, so nothing it read says the node is free
				m.viol("C01", "C01.create-free", merge(attrs, "cause", "pod-listing-failed"), inv, d)
			}
			// C04: canary confinement
			if upToDate && role != "active" && v.EDS.Status.ActiveReplicaSet != "" {
				ctx.Count("C04.canary-role-creates")
				if !v.Canary[node] {
					m.viol("C04", "C04.confined-create", map[string]string{"role": role}, inv, d)
				}
			}
			if role == "active" && canaryInProgress {
				if v.Canary[node] {
					m.viol("C04", "C04.active-hands-off", map[string]string{"verb": "create"}, inv, d)
				}
			}
			// C08: freeze / canary pause
			if role == "active" && v.EDS.Annotations[v1.ExtendedDaemonSetRolloutFrozenAnnotationKey] == "true" {
				m.viol("C08", "C08.frozen-no-create", nil, inv, d)
				m.heldInterpreted(v.EDS, "frozen", "create", inv, d)
			}
			if role == "canary" && canaryPausedAsRead(v) {
				m.viol("C08", "C08.canary-paused-no-create", nil, inv, d)
			}
			if role == "canary" && oracle.RSCond(v.RS, v1.ConditionTypeCanaryFailed) {
				m.viol("C06", "C06.failed-no-create", nil, inv, d)
			}
			// C10/C13: pod stamped with the replica set's hash, labels, owner
			if pod.Annotations[v1.MD5ExtendedDaemonSetAnnotationKey] != v.RS.Spec.TemplateGeneration || v.RS.Annotations[v1.MD5ExtendedDaemonSetAnnotationKey] != v.RS.Spec.TemplateGeneration {
				m.viol("C13", "C13.hash-chain", map[string]string{"where": "pod"}, inv, d)
			}
			if pod.Annotations[v1.MD5ExtendedDaemonSetAnnotationKey] != v.RS.Spec.TemplateGeneration {
				m.viol("C10", "C10.template-hash", nil, inv, d)
			}
			if kit.MarkerOfPod(pod) != kit.MarkerOfTemplate(rsTpl) {
				m.viol("C13", "C13.pod-template-faithful", nil, inv, d)
			}
			ctx.Count("C10.sim-pod-creates-judged")
			m.judgeCreatedResources(inv, v, c, pod)
			if pod.Labels[v1.ExtendedDaemonSetNameLabelKey] != v.EDS.Name || pod.Labels[v1.ExtendedDaemonSetReplicaSetNameLabelKey] != v.RS.Name || pod.Namespace != v.RS.Namespace {
				m.viol("C10", "C10.labels", nil, inv, d)
			}
		case "delete":
			if c.Pre == nil {
				// the pod was already gone (another actor removed it in between): the delete was issued
				if c.Submitted != nil {
					deleted[c.Submitted.GetNamespace()+"/"+c.Submitted.GetName()] = c
				}
				continue
			}
			pre := c.Pre.(*corev1.Pod)
			deleted[podKey(pre)] = c
			phaseAsRead := pre.Status.Phase
			for _, p := range v.Pods {
				if podKey(p) == podKey(pre) {
					phaseAsRead = p.Status.Phase // the phase the sync saw (it may have changed since)
				}
			}
			if phaseAsRead == corev1.PodUnknown {
				m.viol("C01", "C01.unknown-untouched", map[string]string{"verb": "delete"}, inv, map[string]any{"pod": podKey(pre)})
			}
			if isUpdateDelete(c) {
				n := 0
				for _, p := range podsByNode[kit.NodeOfPod(pre)] {
					if p.Status.Phase != corev1.PodFailed && p.Status.Phase != corev1.PodUnknown {
						n++
					}
				}
				m.judgeSpuriousReplace(inv, v, c, pre, phaseAsRead, n == 1, eligible(kit.NodeOfPod(pre)))
				updateDeletes = append(updateDeletes, c)
			} else {
				cleanupDeletes = append(cleanupDeletes, c)
			}
			if role == "active" && canaryInProgress && v.Canary[kit.NodeOfPod(pre)] {
				m.viol("C04", "C04.active-hands-off", map[string]string{"verb": "delete"}, inv, map[string]any{"pod": podKey(pre), "callsite": c.Callsite})
			}
			// the canary replica set must leave the other nodes' serving pod alone ("every other
			// eligible node keeps being served with the active template"): deleting the only
			// daemon pod of a non-canary node is judged (duplicate resolution there is not)
			if role == "canary" && !v.Canary[kit.NodeOfPod(pre)] && kit.NodeOfPod(pre) != "" {
				n := 0
				for _, p := range podsByNode[kit.NodeOfPod(pre)] {
					if p.Status.Phase != corev1.PodFailed && p.Status.Phase != corev1.PodUnknown {
						n++
					}
				}
				if n == 1 && pre.Status.Phase != corev1.PodFailed && v.Nodes[kit.NodeOfPod(pre)] != nil {
					m.viol("C04", "C04.canary-hands-off", map[string]string{"verb": "delete", "node-eligible-for-new-template": fmt.Sprint(eligible(kit.NodeOfPod(pre)))}, inv, map[string]any{"pod": podKey(pre), "node": kit.NodeOfPod(pre), "callsite": c.Callsite})
				}
			}
		case "patch":
			if c.Pre != nil && c.Pre.(*corev1.Pod).Status.Phase == corev1.PodUnknown {
				ctx.Count("C01.unknown-pod-label-patches")
			}
			// C04: "pods of the canary replica set on canary nodes carry the canary label during the
			// canary": nobody takes it away from a pod of the replica set that is the canary as read
			if c.Pre != nil && c.Post != nil && c.Applied() && canaryInProgress && v.EDS.Spec.Strategy.Canary != nil {
				pre, post := c.Pre.(*corev1.Pod), c.Post.(*corev1.Pod)
				lk := v1.ExtendedDaemonSetReplicaSetCanaryLabelKey
				if pre.Labels[lk] != "" && post.Labels[lk] == "" && pre.Labels[v1.ExtendedDaemonSetReplicaSetNameLabelKey] == v.EDS.Status.Canary.ReplicaSet && v.RS.Name != v.EDS.Status.Canary.ReplicaSet {
					m.viol("C04", "C04.label-kept-during-canary", map[string]string{"role": role}, inv, map[string]any{"pod": podKey(pre), "node": kit.NodeOfPod(pre), "callsite": c.Callsite})
				}
			}
		}
	}
	for _, p := range v.Pods {
		if p.Status.Phase == corev1.PodUnknown {
			ctx.Count("C01.unknown-pods-in-view")
		}
	}

	// the strategy ran (pods were listed, the sync did not return early) and role manages pods
	managed := v.HasPods && (role == "active" || role == "canary") && out.Err == nil && !invFaulted(inv)
	if managed {
		// C01 duplicate resolution and ineligible clean-up
		for node, pods := range podsByNode {
			if role == "active" && v.Canary[node] {
				continue // hidden from the active replica set
			}
			if !eligible(node) {
				if role == "canary" && !v.Canary[node] {
					// nodes outside the canary list are the active replica set's business: the
					// canary replica set judging them against *its* template would take pods of
					// the active template away from nodes the new template no longer selects
					continue
				}
				for _, p := range pods {
					if p.Status.Phase == corev1.PodUnknown || p.DeletionTimestamp != nil {
						continue
					}
					ctx.Count("C01.ineligible-cleanups-judged")
					if deleted[podKey(p)] == nil {
						m.viol("C01", "C01.ineligible-cleanup", map[string]string{"role": role, "node-in-view": fmt.Sprint(v.Nodes[node] != nil)}, inv, map[string]any{"pod": podKey(p), "node": node})
					}
				}
				continue
			}
			if role == "canary" && !v.Canary[node] {
				continue // duplicates on the other nodes are resolved by the active replica set
			}
			var such []*corev1.Pod
			nFailed := 0
			for _, p := range pods {
				switch p.Status.Phase {
				case corev1.PodFailed:
					nFailed++
				case corev1.PodUnknown:
				default:
					such = append(such, p)
				}
			}
			if len(such) >= 2 {
				ctx.Count("C01.dup-resolutions-judged")
				ord := oracle.Representative(such)
				keep := ord[0]
				attrs := map[string]string{"role": role, "failed-pods-on-node": fmt.Sprint(nFailed > 0)}
				d := map[string]any{"node": node, "keep": podKey(keep), "pods": podNames(ord)}
				if deleted[podKey(keep)] != nil && !isUpdateDelete(deleted[podKey(keep)]) {
					m.viol("C01", "C01.dup-resolution", merge(attrs, "cause", "representative-deleted"), inv, d)
				}
				for _, p := range ord[1:] {
					if p.DeletionTimestamp == nil && deleted[podKey(p)] == nil {
						d["survivor"] = podKey(p)
						m.viol("C01", "C01.dup-resolution", merge(attrs, "cause", "duplicate-not-deleted"), inv, d)
					}
				}
			}
		}
	}

	if role == "active" && v.HasPods && !invFaulted(inv) {
		// "only the clean-up of duplicate pods and of pods on no-longer-eligible nodes is outside the budget": a
		// deletion of the one scheduled, running pod of a node the replica set targets is a deletion for updating
		// whichever helper issues it, and counts towards the budget and the cap
		forUpdate := append([]*simapi.Call{}, updateDeletes...)
		for _, c := range cleanupDeletes {
			if c.Pre == nil {
				continue
			}
			p := c.Pre.(*corev1.Pod)
			node := kit.NodeOfPod(p)
			if node == "" || !eligible(node) || v.Canary[node] || p.Spec.NodeName == "" || p.Status.Phase != corev1.PodRunning || len(podsByNode[node]) != 1 || p.DeletionTimestamp != nil {
				continue
			}
			ctx.Count("C03.sim-clean-up-deletes-counted-as-update")
			forUpdate = append(forUpdate, c)
		}
		m.budget(inv, v, podsByNode, forUpdate, eligible)
	}
	// C04 label-on: a canary-role sync makes sure its own pod on each canary node carries the canary label
	if role == "canary" && managed {
		patched := map[string]bool{}
		patchFailed := false
		for _, c := range inv.Calls {
			if c.Verb == "patch" && c.Kind == simapi.KindPod && c.Submitted != nil && c.Submitted.GetLabels()[v1.ExtendedDaemonSetReplicaSetCanaryLabelKey] == v1.ExtendedDaemonSetReplicaSetCanaryLabelValue {
				patched[c.NS+"/"+c.Name] = true
				if c.Err != nil {
					patchFailed = true
				}
			}
		}
		if patchFailed {
			// a label patch was refused (the pod had been removed meanwhile): the sync stops labelling
			// and asks to be run again promptly, so the remaining pods are the next sync's business
			ctx.Count("C04.label-on-skipped-patch-error")
		}
		for node := range v.Canary {
			if patchFailed {
				break
			}
			if !eligible(node) {
				continue
			}
			var such []*corev1.Pod
			for _, p := range podsByNode[node] {
				if p.Status.Phase != corev1.PodFailed && p.Status.Phase != corev1.PodUnknown {
					such = append(such, p)
				}
			}
			if len(such) == 0 {
				continue
			}
			p := oracle.Representative(such)[0]
			if p.Labels[v1.ExtendedDaemonSetReplicaSetNameLabelKey] != v.RS.Name {
				continue // a pod of another replica set still sits there (it is deleted first)
			}
			ctx.Count("C04.label-on-judged")
			if p.Labels[v1.ExtendedDaemonSetReplicaSetCanaryLabelKey] != v1.ExtendedDaemonSetReplicaSetCanaryLabelValue && !patched[podKey(p)] && deleted[podKey(p)] == nil {
				m.viol("C04", "C04.label-on", nil, inv, map[string]any{"pod": podKey(p), "node": node})
			}
		}
	}
	// C08 paused: no update deletions
	if role == "active" && v.EDS.Annotations[v1.ExtendedDaemonSetRollingUpdatePausedAnnotationKey] == "true" && len(updateDeletes) > 0 {
		m.viol("C08", "C08.paused-no-update-delete", nil, inv, nil)
		m.heldInterpreted(v.EDS, "paused", "delete-for-update", inv, nil)
	}
	if role == "active" && v.EDS.Annotations[v1.ExtendedDaemonSetRolloutFrozenAnnotationKey] == "true" && len(updateDeletes) > 0 {
		m.viol("C08", "C08.frozen-no-update-delete", nil, inv, nil)
		m.heldInterpreted(v.EDS, "frozen", "delete-for-update", inv, nil)
	}
	// the same through the clean-up path: while paused or frozen, deleting the one live pod of a node the replica
	// set targets is an update deletion whatever helper issues it (duplicates, Failed pods and pods on nodes that
	// are gone or no longer eligible remain clean-up business)
	if role == "active" && (v.EDS.Annotations[v1.ExtendedDaemonSetRollingUpdatePausedAnnotationKey] == "true" || v.EDS.Annotations[v1.ExtendedDaemonSetRolloutFrozenAnnotationKey] == "true") {
		for _, c := range cleanupDeletes {
			if c.Pre == nil {
				continue
			}
			p := c.Pre.(*corev1.Pod)
			node := kit.NodeOfPod(p)
			if node == "" || !eligible(node) || v.Canary[node] || p.Status.Phase == corev1.PodFailed || p.Status.Phase == corev1.PodSucceeded || p.Status.Phase == corev1.PodUnknown {
				continue
			}
			// only a scheduled, running pod that is the node's one and only pod as read (no sibling of any kind:
			// with a terminating or unscheduled sibling around, which of them goes is duplicate resolution)
			if p.Spec.NodeName == "" || p.Status.Phase != corev1.PodRunning || len(podsByNode[node]) != 1 {
				continue
			}
			rule := "C08.paused-no-update-delete"
			if v.EDS.Annotations[v1.ExtendedDaemonSetRolloutFrozenAnnotationKey] == "true" {
				rule = "C08.frozen-no-update-delete"
			}
			m.viol("C08", rule, map[string]string{"path": "clean-up"}, inv, map[string]any{"pod": podKey(p), "node": node})
		}
	}
	if role == "active" && v.HasPods {
		if v.EDS.Annotations[v1.ExtendedDaemonSetRollingUpdatePausedAnnotationKey] == "true" {
			ctx.Count("C08.paused-syncs")
		}
		if v.EDS.Annotations[v1.ExtendedDaemonSetRolloutFrozenAnnotationKey] == "true" {
			ctx.Count("C08.frozen-syncs")
		}
	}

	// C09 spacing and C14 replica-set status invariant
	var statusWrite *simapi.Call
	for _, c := range inv.Calls {
		if c.Verb == "status-update" && c.Kind == simapi.KindERS {
			statusWrite = c
		}
	}
	// every pod create or delete counts, clean-up deletions included ("two syncs ... that create or delete pods")
	nPodActions := len(updateDeletes) + len(cleanupDeletes) + sumInts(createdOn)
	key := v.RS.Namespace + "/" + v.RS.Name + "/" + string(v.RS.UID)
	now := time.Unix(0, inv.VTimeNanos)
	if nPodActions > 0 {
		ctx.Count("C09.acting-syncs")
		if last, ok := m.lastAction[key]; ok {
			freq := 10 * time.Second
			if v.EDS.Spec.Strategy.ReconcileFrequency != nil {
				freq = v.EDS.Spec.Strategy.ReconcileFrequency.Duration
			}
			if gap := now.Sub(last); gap < freq-time.Second {
				m.viol("C09", "C09.spacing", map[string]string{"role": role}, inv, map[string]any{"gap": gap.String(), "reconcileFrequency": freq.String()})
			}
		}
		switch {
		case statusWrite != nil && statusWrite.Outcome == simapi.OutOK:
			m.lastAction[key] = now
		case statusWrite == nil && !inv.Dead && inv.Panic == "":
			// the sync acted on pods and returned without even attempting a status write: no status write
			// failed, so the premise still holds and the next acting sync is judged against this one
			m.lastAction[key] = now
		default:
			delete(m.lastAction, key) // premise "as long as its status writes succeed" broken
		}
	}
	// C09: "t is the time since its Active condition last became true": when a status write turns the
	// Active condition true (absent or false before, in the stored image), the transition time it
	// records must be an instant of this invocation (stored timestamps have one-second resolution)
	if statusWrite != nil && statusWrite.Applied() && statusWrite.Pre != nil && statusWrite.Post != nil {
		pre, post := statusWrite.Pre.(*v1.ExtendedDaemonSetReplicaSet), statusWrite.Post.(*v1.ExtendedDaemonSetReplicaSet)
		pc, qc := kit.Cond(&pre.Status, v1.ConditionTypeActive), kit.Cond(&post.Status, v1.ConditionTypeActive)
		if qc != nil && qc.Status == corev1.ConditionTrue && (pc == nil || pc.Status != corev1.ConditionTrue) {
			ctx.Count("C09.sim-active-transitions-judged")
			start, end := time.Unix(0, inv.VTimeNanos), time.Unix(0, inv.VTimeNanos)
			if inv.EndVTimeNanos > inv.VTimeNanos {
				end = time.Unix(0, inv.EndVTimeNanos)
			}
			if lt := qc.LastTransitionTime.Time; lt.Before(start.Add(-time.Second)) || lt.After(end.Add(time.Second)) {
				m.viol("C09", "C09.active-since", map[string]string{"had-condition-before": fmt.Sprint(pc != nil)}, inv, map[string]any{"recorded": lt.String(), "invocation": start.String() + " .. " + end.String(), "before": fmt.Sprintf("%+v", pc)})
			}
		}
	}
	// (a sync that stops before listing pods - parent not defaulted - re-writes the stored counters
	// with an error condition: nothing was recomputed, nothing to judge)
	if statusWrite != nil && statusWrite.Submitted != nil && (role == "active" || role == "canary") && v.HasPods {
		st := statusWrite.Submitted.(*v1.ExtendedDaemonSetReplicaSet).Status
		ctx.Count("C14.rs-status-writes-judged")
		if role == "active" && managed {
			// desired of the active replica set = the nodes it targets as read (eligible, not reserved for
			// the canary), whatever state their pods are in (a pod stuck unscheduled or terminating does
			// not make its node less desired)
			n := 0
			for name := range v.Nodes {
				if eligible(name) && !v.Canary[name] {
					n++
				}
			}
			ctx.Count("C14.sim-active-desired-judged")
			if int(st.Desired) != n {
				m.viol("C14", "C14.rs-desired", map[string]string{"role": role}, inv, map[string]any{"desired": st.Desired, "targetedNodesAsRead": n, "ignoredUnresponsiveNodes": st.IgnoredUnresponsiveNodes})
			}
		}
		if role == "canary" && managed {
			// the canary replica set targets the canary nodes: it cannot desire more pods than there are distinct
			// nodes in the list it read, nor report more pods than exist (those it read plus those it just created)
			distinct := len(v.Canary)
			have := 0
			for _, p := range v.Pods {
				if isDaemonPodOf(p, v.EDS) {
					have++
				}
			}
			for _, n := range createdOn {
				have += n
			}
			ctx.Count("C14.sim-canary-counts-judged")
			// ... and it desires a pod on every canary node it read that exists and is eligible, whatever state the pod of
			// that node is in (a pod stuck terminating past its grace period does not make its node less desired: the
			// ExtendedDaemonSet's desired is the sum of the two replica sets' and must count every eligible node)
			servable, overdue := 0, 0
			for name := range v.Canary {
				if _, ok := v.Nodes[name]; ok && eligible(name) {
					servable++
				}
			}
			for _, p := range v.Pods {
				if isDaemonPodOf(p, v.EDS) && v.Canary[kit.NodeOfPod(p)] && p.DeletionTimestamp != nil && p.DeletionGracePeriodSeconds != nil &&
					p.DeletionTimestamp.Add(time.Duration(*p.DeletionGracePeriodSeconds)*time.Second).Before(time.Unix(0, inv.VTimeNanos)) {
					overdue++
				}
			}
			if overdue > 0 {
				ctx.Count("C14.sim-canary-desired-judged-with-overdue-terminating-pod")
			}
			if int(st.Desired) < servable {
				m.viol("C14", "C14.rs-desired", map[string]string{"role": role}, inv, map[string]any{"desired": st.Desired, "eligibleCanaryNodesAsRead": servable, "overdueTerminatingCanaryPods": overdue, "ignoredUnresponsiveNodes": st.IgnoredUnresponsiveNodes, "canaryNodes": fmt.Sprint(v.EDS.Status.Canary.Nodes)})
			}
			if int(st.Desired) > distinct || int(st.Current) > have {
				m.viol("C14", "C14.rs-counts", map[string]string{"role": role}, inv, map[string]any{"status": fmt.Sprintf("desired=%d current=%d ready=%d available=%d", st.Desired, st.Current, st.Ready, st.Available), "distinctCanaryNodesAsRead": distinct, "podsAsReadPlusCreated": have, "canaryNodes": fmt.Sprint(v.EDS.Status.Canary.Nodes)})
			}
		}
		if !(0 <= st.Available && st.Available <= st.Ready && st.Ready <= st.Current && st.Current <= st.Desired) {
			m.viol("C14", "C14.rs-status-order", map[string]string{"role": role}, inv, map[string]any{"status": fmt.Sprintf("desired=%d current=%d ready=%d available=%d", st.Desired, st.Current, st.Ready, st.Available)})
		}
	}
	// C07 bookkeeping: first time the RS is seen failed
	if statusWrite != nil && statusWrite.Applied() {
		post := statusWrite.Submitted.(*v1.ExtendedDaemonSetReplicaSet)
		if oracle.RSCond(post, v1.ConditionTypeCanaryFailed) {
			if _, ok := m.failedAt[key]; !ok {
				m.failedAt[key] = now
			}
		}
	}
}

// isUpdateDelete: the delete was issued by the rolling-update path (deletePods), as opposed
// to the clean-up path (deletePodSlice).
func isUpdateDelete(c *simapi.Call) bool {
	return strings.Contains(c.Callsite, ".deletePods.")
}

// invFaulted: the invocation's view is unreliable (a read was refused, or the process was stopped and its later
// calls are void). Refused or unanswered writes do not count: what a sync attempts is bounded like what it
// achieves.
func invFaulted(inv *simapi.Invocation) bool {
	for _, c := range inv.Calls {
		if c.Outcome == simapi.OutVoid || (c.Fault != simapi.NoFault && !c.IsWrite()) || c.Fault == simapi.StopBefore || c.Fault == simapi.StopAfter {
			return true
		}
	}
	return false
}

func canaryPausedAsRead(v *ERSView) bool {
	ann := v.EDS.Annotations
	if ann[v1.ExtendedDaemonSetCanaryUnpausedAnnotationKey] == "true" {
		return false
	}
	return ann[v1.ExtendedDaemonSetCanaryPausedAnnotationKey] == "true" || oracle.RSCond(v.RS, v1.ConditionTypeCanaryPaused)
}

func merge(a map[string]string, kv ...string) map[string]string {
	out := map[string]string{}
	for k, v := range a {
		out[k] = v
	}
	for i := 0; i+1 < len(kv); i += 2 {
		out[kv[i]] = kv[i+1]
	}
	return out
}

func sumInts(m map[string]int) int {
	n := 0
	for _, v := range m {
		n += v
	}
	return n
}

func podNames(ps []*corev1.Pod) []string {
	var out []string
	for _, p := range ps {
		out = append(out, fmt.Sprintf("%s(tpl=%s,sched=%v,created=%s,phase=%s,ready=%v,term=%v)", p.Name, kit.MarkerOfPod(p), p.Spec.NodeName != "", p.CreationTimestamp.UTC().Format("15:04:05"), p.Status.Phase, kit.IsReady(p), p.DeletionTimestamp != nil))
	}
	return out
}

// budget: C03 on an active-role sync (DESIGN.md C03).
func (m *Monitors) budget(inv *simapi.Invocation, v *ERSView, podsByNode map[string][]*corev1.Pod, updateDeletes []*simapi.Call, eligible func(string) bool) {
	ctx := m.w.Ctx
	ru := v.EDS.Spec.Strategy.RollingUpdate
	// stuck-ness (unscheduled > 10 min, terminating past its grace) is read from the wall clock
	// when the strategy runs; in N mode the clock may move inside the invocation, so the budget
	// is computed at the first and at the last instant of the invocation and the more tolerant
	// of the two is used
	instants := []time.Time{time.Unix(0, inv.VTimeNanos)}
	if inv.EndVTimeNanos > inv.VTimeNanos {
		instants = append(instants, time.Unix(0, inv.EndVTimeNanos))
	}
	// targeted nodes: eligible, not canary
	var T []string
	for name := range v.Nodes {
		if eligible(name) && !v.Canary[name] {
			T = append(T, name)
		}
	}
	sort.Strings(T)
	n := len(T)
	MU, ok1 := kit.Resolve(ru.MaxUnavailable, n)
	MPSF, ok2 := kit.Resolve(ru.MaxPodSchedulerFailure, n)
	if !ok1 || !ok2 {
		return
	}
	allowed, stuck, unavailableNodes := -1, 0, 0
	for _, now := range instants {
		st, un := 0, 0
		for _, name := range T {
			var cands []*corev1.Pod
			for _, p := range podsByNode[name] {
				// Unknown-phase pods are ignored and Failed pods are deleted or kept as clean-up
				// business (C01): neither is the node's daemon pod for the budget
				if p.Status.Phase == corev1.PodUnknown || p.Status.Phase == corev1.PodFailed {
					continue
				}
				cands = append(cands, p)
			}
			if len(cands) == 0 {
				un++
				continue
			}
			// which of several pods the controller keeps is C01's business
			p := oracle.Representative(cands)[0]
			isStuck := (p.Spec.NodeName == "" && p.CreationTimestamp.Add(10*time.Minute).Before(now)) ||
				(p.DeletionTimestamp != nil && p.DeletionGracePeriodSeconds != nil && p.DeletionTimestamp.Add(time.Duration(*p.DeletionGracePeriodSeconds)*time.Second).Before(now))
			if isStuck {
				st++
				un++
				continue
			}
			// an up-to-date pod that is terminating but still Ready is not one of the statement's node
			// classes: it is given the benefit of the doubt (counted available, as the controller does)
			upToDatePod := kit.MarkerOfPod(p) == kit.MarkerOfTemplate(&v.RS.Spec.Template)
			if !kit.IsReady(p) || (p.DeletionTimestamp != nil && !upToDatePod) {
				un++
			}
		}
		tol := st
		if tol > MPSF {
			tol = MPSF
		}
		a := MU - (un - tol)
		if a < 0 {
			a = 0
		}
		if a > allowed {
			allowed, stuck, unavailableNodes = a, st, un
		}
	}
	dAvail := 0
	for _, c := range updateDeletes {
		pre := c.Pre
		if pre == nil {
			continue
		}
		// availability is judged on the pod as the invocation read it
		var asRead *corev1.Pod
		for _, p := range v.Pods {
			if podKey(p) == pre.GetNamespace()+"/"+pre.GetName() {
				asRead = p
			}
		}
		if asRead == nil {
			asRead = pre.(*corev1.Pod)
		}
		if kit.IsReady(asRead) && asRead.DeletionTimestamp == nil {
			dAvail++
		}
	}
	if len(updateDeletes) > 0 {
		ctx.Count("C03.sim-syncs-deleting-for-update")
	}
	perNode := map[string][]string{}
	for _, name := range T {
		perNode[name] = podNames(podsByNode[name])
	}
	d := map[string]any{"perNode": perNode, "targeted": n, "MU": MU, "MPSF": MPSF, "unavailableNodes": unavailableNodes, "stuck": stuck, "allowedAvailableDeletes": allowed, "deletedAvailable": dAvail, "updateDeletes": len(updateDeletes)}
	if dAvail > allowed {
		// outdated unavailable pods present? (the known map-order defect class)
		m.viol("C03", "C03.budget", map[string]string{"mixed": "sim", "stuck": fmt.Sprint(stuck > 0)}, inv, d)
	}
	if len(updateDeletes) > MU {
		m.viol("C03", "C03.cap", map[string]string{"mixed": "sim", "stuck": fmt.Sprint(stuck > 0)}, inv, d)
		m.viol("C09", "C09.delete-cap", map[string]string{"sim": "true"}, inv, d)
	}
	// C09 slow-start ramp: creates of this sync <= min(maxParallelPodCreation, (1+floor(t/interval))*increase),
	// t since the Active condition (as read) last became true; the more tolerant of the invocation's
	// first and last instant is used
	creates := 0
	for _, c := range inv.Calls {
		if c.Verb == "create" && c.Kind == simapi.KindPod {
			creates++
		}
	}
	if creates > 0 && ru.SlowStartAdditiveIncrease != nil && ru.SlowStartIntervalDuration != nil && ru.MaxParallelPodCreation != nil && ru.SlowStartIntervalDuration.Duration > 0 {
		inc, ok := kit.Resolve(ru.SlowStartAdditiveIncrease, n)
		if ok {
			bound := 0
			for _, now := range instants {
				t := time.Duration(0)
				if c := kit.Cond(&v.RS.Status, v1.ConditionTypeActive); c != nil && c.Status == corev1.ConditionTrue {
					t = now.Sub(c.LastTransitionTime.Time)
				}
				if t < 0 {
					t = 0
				}
				b := (1 + int(t/ru.SlowStartIntervalDuration.Duration)) * inc
				if b > int(*ru.MaxParallelPodCreation) {
					b = int(*ru.MaxParallelPodCreation)
				}
				if b > bound {
					bound = b
				}
			}
			ctx.Count("C09.sim-creating-syncs-judged")
			if bound < len(T) {
				ctx.Count("C09.sim-creating-syncs-with-binding-ramp")
			}
			if creates > bound {
				m.viol("C09", "C09.create-bound", map[string]string{"sim": "true"}, inv, map[string]any{"creates": creates, "bound": bound, "targeted": n, "increase": ru.SlowStartAdditiveIncrease.String(),
					"interval": ru.SlowStartIntervalDuration.Duration.String(), "maxParallel": *ru.MaxParallelPodCreation, "activeCondition": fmt.Sprintf("%+v", kit.Cond(&v.RS.Status, v1.ConditionTypeActive))})
			}
		}
	}
}

// ---- C12: an invocation only touches its own EDS's objects --------------------------------------------

func (m *Monitors) ownObjects(inv *simapi.Invocation) {
	ctx := m.w.Ctx
	var edsNS, edsName string
	var eds *v1.ExtendedDaemonSet
	switch inv.Controller {
	case "eds", "podtemplate":
		edsNS, edsName = inv.NS, inv.Name
	case "ers":
		v := ersView(inv)
		if v.RS == nil {
			return
		}
		edsNS = v.RS.Namespace
		for _, o := range v.RS.OwnerReferences {
			if o.Kind == "ExtendedDaemonSet" {
				edsName = o.Name
			}
		}
		eds = v.EDS
	default:
		return
	}
	if eds == nil {
		for _, c := range inv.Calls {
			if c.Verb == "get" && c.Kind == simapi.KindEDS && len(c.Objs) == 1 {
				eds = c.Objs[0].(*v1.ExtendedDaemonSet)
				break
			}
		}
	}
	oldDS := ""
	if eds != nil {
		oldDS = eds.Annotations[v1.ExtendedDaemonSetOldDaemonsetAnnotationKey]
	}
	for _, c := range inv.Calls {
		if !c.IsWrite() {
			continue
		}
		ctx.Count("C12.writes-judged")
		target := c.Pre
		if target == nil {
			target = c.Submitted
		}
		ok := false
		why := ""
		switch c.Kind {
		case simapi.KindEDS:
			ok = c.NS == edsNS && c.Name == edsName
			why = "another ExtendedDaemonSet"
		case simapi.KindERS:
			ok = c.NS == edsNS && target != nil && target.GetLabels()[v1.ExtendedDaemonSetNameLabelKey] == edsName
			if ok && target != nil {
				for _, o := range target.GetOwnerReferences() {
					if o.Kind == "ExtendedDaemonSet" && o.Name != edsName {
						ok = false
					}
				}
			}
			why = "replica set of another ExtendedDaemonSet"
		case simapi.KindPodTpl:
			ok = c.NS == edsNS && c.Name == edsName
			why = "foreign PodTemplate"
		case simapi.KindPod:
			ns := c.NS
			if target != nil {
				ns = target.GetNamespace()
			}
			if ns == edsNS && target != nil {
				if target.GetLabels()[v1.ExtendedDaemonSetNameLabelKey] == edsName {
					ok = true
				} else if oldDS != "" {
					for _, o := range target.GetOwnerReferences() {
						if o.Kind == "DaemonSet" && o.Name == oldDS {
							ok = true
						}
					}
				}
			}
			why = "foreign pod"
		default:
			why = "unexpected kind " + c.Kind
		}
		if !ok {
			m.viol("C12", "C12.foreign-write", map[string]string{"controller": inv.Controller, "verb": c.Verb, "kind": c.Kind, "sameNamespace": fmt.Sprint(c.NS == edsNS || (target != nil && target.GetNamespace() == edsNS))},
				inv, map[string]any{"target": c.Kind + " " + c.NS + "/" + c.Name, "why": why, "eds": edsNS + "/" + edsName, "callsite": c.Callsite})
		}
	}
}

// ---- EDS invocations: C05, C07, C13, C14, C15(list) -----------------------------------------------------

type edsView struct {
	EDS *v1.ExtendedDaemonSet
	RSs []*v1.ExtendedDaemonSetReplicaSet // as listed (may contain foreign ones: C12's defect)
	Own []*v1.ExtendedDaemonSetReplicaSet // those of this EDS per namespace + label
	// RSListFailed: the listing of the replica sets returned an error
	RSListFailed bool
}

func (m *Monitors) onEDS(inv *simapi.Invocation, out kit.Outcome) {
	ctx := m.w.Ctx
	var v edsView
	for _, c := range inv.Calls {
		if c.Err != nil {
			if c.Verb == "list" && c.Kind == simapi.KindERS && c.Outcome != simapi.OutVoid {
				v.RSListFailed = true
			}
			continue
		}
		if c.Verb == "get" && c.Kind == simapi.KindEDS && v.EDS == nil && len(c.Objs) == 1 {
			v.EDS = c.Objs[0].(*v1.ExtendedDaemonSet)
		}
		if c.Verb == "list" && c.Kind == simapi.KindERS && v.RSs == nil {
			for _, o := range c.Objs {
				rs := o.(*v1.ExtendedDaemonSetReplicaSet)
				v.RSs = append(v.RSs, rs)
			}
			if v.RSs == nil {
				v.RSs = []*v1.ExtendedDaemonSetReplicaSet{}
			}
		}
	}
	if v.EDS == nil {
		return
	}
	// The ExtendedDaemonSet is written with full-object updates under optimistic concurrency: an applied write
	// replaces exactly the version the writer holds. When the first applied write of this reconcile replaced a
	// version other than the one the reconcile read at its start, someone else wrote the object in between and
	// the reconcile got hold of that newer version: what it publishes has to be right for the version it
	// overwrites, so the rules below judge against that version (equal to the one read at the start in every
	// reconcile that was not overtaken).
	firstRead := v.EDS
	for _, c := range inv.Calls {
		if c.Kind == simapi.KindEDS && (c.Verb == "update" || c.Verb == "status-update") && c.Applied() && c.Pre != nil {
			if pre, ok := c.Pre.(*v1.ExtendedDaemonSet); ok && pre.Namespace == v.EDS.Namespace && pre.Name == v.EDS.Name && pre.ResourceVersion != v.EDS.ResourceVersion {
				ctx.Count("C11.eds-write-replaced-a-version-newer-than-the-first-read")
				v.EDS = pre.DeepCopy()
			}
			break
		}
	}
	for _, rs := range v.RSs {
		if rs.Namespace == v.EDS.Namespace {
			v.Own = append(v.Own, rs)
		}
	}
	now := time.Unix(0, inv.VTimeNanos)
	specMarker := kit.MarkerOfTemplate(&v.EDS.Spec.Template)
	var upToDate, activeBefore *v1.ExtendedDaemonSetReplicaSet
	for _, rs := range v.Own {
		if kit.MarkerOfTemplate(&rs.Spec.Template) == specMarker && rs.DeletionTimestamp == nil {
			upToDate = rs
		}
		if rs.Name == v.EDS.Status.ActiveReplicaSet {
			activeBefore = rs
		}
	}
	var statusWrite, specWrite *simapi.Call
	var rsDeletes []string
	defer func() {
		// "never deletes the active replica set or the one matching spec.template": active is the
		// replica set that is active once this reconcile has made its decision (a replica set
		// that is being replaced and reports no pods may be collected in the same reconcile)
		activeAfter := v.EDS.Status.ActiveReplicaSet
		if statusWrite != nil && statusWrite.Submitted != nil {
			activeAfter = statusWrite.Submitted.(*v1.ExtendedDaemonSet).Status.ActiveReplicaSet
		} else if st := kit.GetEDS(m.w.S, v.EDS.Namespace, v.EDS.Name); st != nil && out.Err == nil {
			activeAfter = st.Status.ActiveReplicaSet
		}
		if statusWrite == nil && out.Err != nil && upToDate != nil && activeBefore != nil && upToDate.Name != activeBefore.Name {
			// the reconcile ended in an error before it wrote its status, so its decision about the
			// active replica set is not observable; if the promotion rule allowed the switch, the
			// collection of the replica set it was replacing is accepted
			if allowed, either, _ := promotionAllowed(v.EDS, upToDate, now); allowed || either {
				activeAfter = upToDate.Name
				m.w.Ctx.Count("C13.active-after-inferred-from-promotion-rule")
			}
		}
		for _, name := range rsDeletes {
			if name == activeAfter || (upToDate != nil && name == upToDate.Name) {
				m.viol("C13", "C13.never-delete-in-use", map[string]string{"which": map[bool]string{true: "active", false: "up-to-date"}[name == activeAfter]}, inv, map[string]any{"rs": name})
			}
		}
	}()
	for _, c := range inv.Calls {
		switch {
		case c.Verb == "create" && c.Kind == simapi.KindERS:
			// C13: one replica set per template, faithful
			ctx.Count("C13.rs-creates-judged")
			sub := c.Submitted.(*v1.ExtendedDaemonSetReplicaSet)
			mk := kit.MarkerOfTemplate(&sub.Spec.Template)
			// a create of this same reconcile that was applied (even if its answer was lost) made one exist
			for _, c0 := range inv.Calls {
				if c0 == c {
					break
				}
				if c0.Verb == "create" && c0.Kind == simapi.KindERS && c0.Applied() && c0.Post != nil {
					prev := c0.Post.(*v1.ExtendedDaemonSetReplicaSet)
					if kit.MarkerOfTemplate(&prev.Spec.Template) == mk && specEqual(&prev.Spec.Template, &sub.Spec.Template) {
						m.viol("C13", "C13.one-per-template", map[string]string{"existing": "created-by-this-reconcile", "first-create-outcome": c0.Outcome}, inv, map[string]any{"existing": prev.Name, "template": mk})
					}
				}
			}
			for _, rs := range v.Own {
				if rs.DeletionTimestamp == nil && kit.MarkerOfTemplate(&rs.Spec.Template) == mk && specEqual(&rs.Spec.Template, &sub.Spec.Template) {
					m.viol("C13", "C13.one-per-template", nil, inv, map[string]any{"existing": rs.Name, "template": mk})
				}
			}
			// the same against the store when the reconcile's own listing of the replica sets failed (its view is
			// then empty although replica sets exist): only the ExtendedDaemonSet controller creates them
			if c.Applied() && v.RSListFailed {
				for _, rs := range kit.RSs(m.w.S) {
					if c.Post != nil && rs.Name == c.Post.GetName() {
						continue
					}
					if rs.Namespace == sub.Namespace && rs.Labels[v1.ExtendedDaemonSetNameLabelKey] == v.EDS.Name && rs.DeletionTimestamp == nil && specEqual(&rs.Spec.Template, &sub.Spec.Template) {
						m.viol("C13", "C13.one-per-template", map[string]string{"existing": "in-store-after-failed-listing"}, inv, map[string]any{"existing": rs.Name, "template": mk})
					}
				}
			}
			if !specEqual(&sub.Spec.Template, &v.EDS.Spec.Template) {
				m.viol("C13", "C13.faithful", nil, inv, map[string]any{"template": mk})
			}
			if sub.Annotations[v1.MD5ExtendedDaemonSetAnnotationKey] == "" || sub.Annotations[v1.MD5ExtendedDaemonSetAnnotationKey] != sub.Spec.TemplateGeneration {
				m.viol("C13", "C13.hash-chain", map[string]string{"where": "replicaset"}, inv, nil)
			}
		case c.Verb == "delete" && c.Kind == simapi.KindERS && c.Pre != nil:
			ctx.Count("C13.rs-deletes-judged")
			pre := c.Pre.(*v1.ExtendedDaemonSetReplicaSet)
			var asRead *v1.ExtendedDaemonSetReplicaSet
			for _, rs := range v.RSs {
				if rs.Namespace == pre.Namespace && rs.Name == pre.Name {
					asRead = rs
				}
			}
			if asRead == nil {
				asRead = pre
			}
			d := map[string]any{"rs": pre.Namespace + "/" + pre.Name, "status-as-read": fmt.Sprintf("desired=%d current=%d ready=%d available=%d", asRead.Status.Desired, asRead.Status.Current, asRead.Status.Ready, asRead.Status.Available)}
			if pre.Namespace == v.EDS.Namespace {
				rsDeletes = append(rsDeletes, pre.Name)
			} else if c.Applied() {
				// a replica set of another namespace: if, by the store, it is the active one or the one matching the
				// template of the ExtendedDaemonSet it belongs to, a replica set in use has been deleted - whoever's
				// reconcile did it
				if owner := kit.GetEDS(m.w.S, pre.Namespace, pre.Labels[v1.ExtendedDaemonSetNameLabelKey]); owner != nil {
					if owner.Status.ActiveReplicaSet == pre.Name || kit.MarkerOfTemplate(&owner.Spec.Template) == kit.MarkerOfTemplate(&pre.Spec.Template) {
						m.viol("C13", "C13.never-delete-in-use", map[string]string{"which": "of-a-namesake-in-another-namespace"}, inv, map[string]any{"rs": pre.Namespace + "/" + pre.Name})
					}
				}
			}
			if asRead.Status.Desired+asRead.Status.Current+asRead.Status.Ready+asRead.Status.Available != 0 {
				m.viol("C13", "C13.delete-only-empty", nil, inv, d)
				if oracle.RSCond(asRead, v1.ConditionTypeCanaryFailed) {
					m.viol("C07", "C07.deleted-only-once-empty", nil, inv, d)
				}
			}
			// C07 retention
			if oracle.RSCond(asRead, v1.ConditionTypeCanaryFailed) {
				ctx.Count("C07.failed-rs-deletes-judged")
				for _, cnd := range asRead.Status.Conditions {
					if cnd.Type != v1.ConditionTypeCanaryFailed {
						continue
					}
					// the first condition of the type is the replica set's Canary-Failed condition
					// (`kubectl-eds canary fail` on an already failed replica set appends duplicates)
					if now.Before(cnd.LastTransitionTime.Add(2 * time.Minute)) {
						d["failed-since"] = cnd.LastTransitionTime.UTC().Format(time.RFC3339)
						d["conditions"] = fmt.Sprintf("%+v", asRead.Status.Conditions)
						m.viol("C07", "C07.retention", nil, inv, d)
					}
					break
				}
			}
		case c.Verb == "status-update" && c.Kind == simapi.KindEDS:
			statusWrite = c
		case c.Verb == "update" && c.Kind == simapi.KindEDS:
			specWrite = c
		}
	}
	if statusWrite == nil || statusWrite.Submitted == nil {
		// no status write: C07 "rollback not even attempted" is judged below from the store
		m.rollbackCheck(inv, out, &v, upToDate, activeBefore, nil, specWrite)
		return
	}
	written := statusWrite.Submitted.(*v1.ExtendedDaemonSet)
	ctx.Count("C14.eds-status-writes-judged")
	var activeAfter *v1.ExtendedDaemonSetReplicaSet
	for _, rs := range v.Own {
		if rs.Name == written.Status.ActiveReplicaSet {
			activeAfter = rs
		}
	}
	// C12: the active / canary replica set must be its own
	if written.Status.ActiveReplicaSet != "" && activeAfter == nil {
		foreign := false
		for _, rs := range v.RSs {
			if rs.Name == written.Status.ActiveReplicaSet && rs.Namespace != v.EDS.Namespace {
				foreign = true
			}
		}
		// ... or a replica set of the same namespace that was not even listed (it does not carry this
		// ExtendedDaemonSet's name label / owner reference): looked up in the store
		if st := kit.GetRS(m.w.S, v.EDS.Namespace, written.Status.ActiveReplicaSet); st != nil && !rsOwnedBy(st, v.EDS) {
			foreign = true
		}
		if foreign {
			m.viol("C12", "C12.foreign-replicaset-adopted", nil, inv, map[string]any{"active": written.Status.ActiveReplicaSet})
		}
	}
	if c := written.Status.Canary; c != nil && c.ReplicaSet != "" {
		if st := kit.GetRS(m.w.S, v.EDS.Namespace, c.ReplicaSet); st != nil && !rsOwnedBy(st, v.EDS) {
			m.viol("C12", "C12.foreign-replicaset-adopted", map[string]string{"as": "canary"}, inv, map[string]any{"canary": c.ReplicaSet})
		}
	}
	// C14: status function over own replica sets as read
	if upToDate != nil {
		want := oracle.ExpectedEDSStatus(v.EDS, v.Own, activeAfter, upToDate)
		if diff := oracle.DiffStatus(&written.Status, want); len(diff) > 0 {
			foreignListed := len(v.RSs) != len(v.Own)
			for _, f := range diff {
				prop, rule := "C14", "C14.status-function"
				if foreignListed && f == "sums" {
					prop, rule = "C12", "C12.foreign-counted-in-status"
				}
				m.viol(prop, rule, map[string]string{"field": f, "canaryStrategy": fmt.Sprint(v.EDS.Spec.Strategy.Canary != nil), "failed": fmt.Sprint(want.State == v1.ExtendedDaemonSetStatusStateCanaryFailed)}, inv,
					map[string]any{"written": fmt.Sprintf("%+v", written.Status), "expected": fmt.Sprintf("%+v", want)})
			}
			if contains(diff, "state") {
				m.viol("C08", "C08.state-reflects-pause", map[string]string{"want": string(want.State), "got": string(written.Status.State)}, inv, nil)
			}
		}
	}
	// C05: promotion rule (only-if direction)
	if rec := v.EDS.Status.ActiveReplicaSet; activeBefore == nil && rec != "" && !v.RSListFailed && firstRead.Status.ActiveReplicaSet == rec {
		// "if the recorded active replica set no longer exists the matching one is adopted directly": the recorded one was
		// not in the listing this reconcile obtained, but it was recorded before the reconcile began and it is still in
		// the store, as a replica set of this ExtendedDaemonSet: it exists, and the promotion rule applies
		if st := kit.GetRS(m.w.S, v.EDS.Namespace, rec); st != nil && rsOwnedBy(st, v.EDS) {
			ctx.Count("C05.sim-recorded-active-not-listed-but-stored")
			activeBefore = st
		}
	}
	if activeBefore != nil && upToDate != nil && activeBefore.Name != upToDate.Name {
		ctx.Count("C05.sim-reconciles-with-canary-candidate")
		if written.Status.ActiveReplicaSet == upToDate.Name {
			ctx.Count("C05.sim-promotions-judged")
			allowed, either, why := promotionAllowed(v.EDS, upToDate, now)
			if !allowed && !either {
				m.viol("C05", "C05."+why, map[string]string{"strategy": strategyOf(v.EDS), "failed": fmt.Sprint(oracle.RSCond(upToDate, v1.ConditionTypeCanaryFailed)), "sim": "true"}, inv,
					map[string]any{"from": activeBefore.Name, "to": upToDate.Name})
			}
		}
	}
	// C04/C15: canary list growth
	if written.Status.Canary != nil && v.EDS.Spec.Strategy.Canary != nil {
		prev := map[string]bool{}
		if v.EDS.Status.Canary != nil {
			for _, n := range v.EDS.Status.Canary.Nodes {
				prev[n] = true
			}
		}
		added, seen := 0, map[string]bool{}
		ctx.Count("C15.sim-canary-lists-judged")
		for _, n := range written.Status.Canary.Nodes {
			if seen[n] {
				m.viol("C15", "C15.distinct", map[string]string{"sim": "true"}, inv, nil)
			}
			seen[n] = true
			if !prev[n] {
				added++
			}
		}
		// C15: "nodes selected earlier that are still valid are kept" - whatever made the reconcile rewrite the list
		// (more replicas, another template edit, the canary replica set re-created): a node of the list it read that
		// still exists, is eligible and matches the canary node selector must be in the list it writes
		// (what the reconcile listed, when it listed nodes: another actor may have changed a node between that listing
		// and the status write - nested schedules -, and the statement is about the cluster state the reconcile read)
		nodesAsListed := map[string]*corev1.Node{}
		listedNodes := false
		for _, c := range inv.Calls {
			if c.Err == nil && c.Verb == "list" && c.Kind == simapi.KindNode {
				listedNodes = true
				for _, o := range c.Objs {
					if n, ok := o.(*corev1.Node); ok {
						if _, dup := nodesAsListed[n.Name]; !dup {
							nodesAsListed[n.Name] = n
						}
					}
				}
			}
		}
		if len(prev) > 0 {
			var ksel labels.Selector
			if ns := v.EDS.Spec.Strategy.Canary.NodeSelector; ns != nil {
				if sel, err := metav1.LabelSelectorAsSelector(ns); err == nil {
					ksel = sel
				}
			}
			for name := range prev {
				if seen[name] {
					continue
				}
				var node *corev1.Node
				if listedNodes {
					// (the first listing is the one filtered by the canary node selector when there is one: a node absent
					// from every listing did not exist, or did not match, in the state the reconcile read)
					node = nodesAsListed[name]
				} else if o := m.w.S.Peek(simapi.KindNode, "", name); o != nil {
					node = o.(*corev1.Node)
				}
				if node == nil {
					continue
				}
				if !oracle.Eligible(node, &v.EDS.Spec.Template.Spec) || (ksel != nil && !ksel.Matches(labels.Set(node.Labels))) {
					continue
				}
				ctx.Count("C15.sim-dropped-nodes-judged")
				m.viol("C15", "C15.stable", map[string]string{"sim": "true", "canary-replicaset-changed": fmt.Sprint(v.EDS.Status.Canary.ReplicaSet != written.Status.Canary.ReplicaSet)}, inv,
					map[string]any{"dropped": name, "before": v.EDS.Status.Canary.Nodes, "after": written.Status.Canary.Nodes})
				break
			}
		}
		if added > 0 {
			ctx.Count("C04.canary-list-growth-judged")
			targeted := 0
			tpl := &v.EDS.Spec.Template
			for _, n := range kit.Nodes(m.w.S) {
				if oracle.Eligible(n, &tpl.Spec) {
					targeted++
				}
			}
			// the reconcile's own node listings may be older than the store (nested schedules): take the
			// larger of the two counts
			listed := map[string]*corev1.Node{}
			for _, c := range inv.Calls {
				if c.Err == nil && c.Verb == "list" && c.Kind == simapi.KindNode {
					for _, o := range c.Objs {
						if n, ok := o.(*corev1.Node); ok {
							// (the first listing is the one the selection works on; a later one - the base of a
							// percentage - may already show a node as another actor changed it meanwhile)
							if _, dup := listed[n.Name]; !dup {
								listed[n.Name] = n
							}
						}
					}
				}
			}
			inView := 0
			for _, n := range listed {
				if oracle.Eligible(n, &tpl.Spec) {
					inView++
				}
			}
			if inView > targeted {
				targeted = inView
			}
			// C15: every node the reconcile adds exists (in what it listed, else in the store), is eligible for the
			// pod and matches the canary node selector, in whichever form the selector is written
			var csel labels.Selector
			if ns := v.EDS.Spec.Strategy.Canary.NodeSelector; ns != nil {
				if sel, err := metav1.LabelSelectorAsSelector(ns); err == nil {
					csel = sel
				}
			}
			for _, name := range written.Status.Canary.Nodes {
				if prev[name] {
					continue
				}
				ctx.Count("C15.sim-added-nodes-judged")
				node := listed[name]
				if node == nil {
					if o := m.w.S.Peek(simapi.KindNode, "", name); o != nil {
						node = o.(*corev1.Node)
					}
				}
				cause := ""
				switch {
				case node == nil:
					cause = "node-does-not-exist"
				case !oracle.Eligible(node, &tpl.Spec):
					cause = "node-not-eligible"
				case csel != nil && !csel.Matches(labels.Set(node.Labels)):
					cause = "node-does-not-match-canary-selector"
				}
				if cause != "" {
					m.viol("C15", "C15.valid", map[string]string{"sim": "true", "origin": "newly-added", "cause": cause}, inv, map[string]any{"node": name, "nodes": written.Status.Canary.Nodes, "canary-node-selector": fmt.Sprint(v.EDS.Spec.Strategy.Canary.NodeSelector)})
				}
			}
			want, ok := kit.Resolve(v.EDS.Spec.Strategy.Canary.Replicas, targeted)
			// percent replicas: the base is the number of nodes the ExtendedDaemonSet targets, i.e. the nodes
			// eligible for its template (in the store now or in what the reconcile listed, whichever is larger)
			if ok && len(written.Status.Canary.Nodes) > want {
				m.viol("C04", "C04.list-size", map[string]string{"replicas": replicasKind(v.EDS.Spec.Strategy.Canary.Replicas)}, inv, map[string]any{"nodes": written.Status.Canary.Nodes, "resolved-replicas": want, "targeted-nodes": targeted, "status.desired-as-read": v.EDS.Status.Desired, "replicas": v.EDS.Spec.Strategy.Canary.Replicas.String()})
			}
		}
	}
	m.rollbackCheck(inv, out, &v, upToDate, activeBefore, written, specWrite)
}

func replicasKind(r *intstr.IntOrString) string {
	if r != nil && r.Type == intstr.String {
		return "percent"
	}
	return "number"
}

func contains(xs []string, x string) bool {
	for _, y := range xs {
		if y == x {
			return true
		}
	}
	return false
}

func strategyOf(e *v1.ExtendedDaemonSet) string {
	c := e.Spec.Strategy.Canary
	if c == nil {
		return "none"
	}
	return string(c.ValidationMode)
}

// promotionAllowed is the C05 reference over the view of an EDS invocation.
func promotionAllowed(eds *v1.ExtendedDaemonSet, up *v1.ExtendedDaemonSetReplicaSet, now time.Time) (allowed, either bool, rule string) {
	c := eds.Spec.Strategy.Canary
	if c == nil {
		return true, false, ""
	}
	ann := eds.Annotations
	if ann[v1.ExtendedDaemonSetCanaryValidAnnotationKey] == up.Name {
		return true, false, ""
	}
	if c.ValidationMode == v1.ExtendedDaemonSetSpecStrategyCanaryValidationModeManual {
		return false, false, "manual-never-by-time"
	}
	if oracle.RSCond(up, v1.ConditionTypeCanaryFailed) {
		return false, false, "failed-never-by-time"
	}
	if ann[v1.ExtendedDaemonSetCanaryPausedAnnotationKey] == "true" || oracle.RSCond(up, v1.ConditionTypeCanaryPaused) {
		return false, false, "paused-never-by-time"
	}
	if c.Duration == nil {
		return false, false, "promotion"
	}
	end := up.CreationTimestamp.Add(c.Duration.Duration)
	if now.Before(end) {
		return false, false, "promotion"
	}
	if now.Equal(end) {
		either = true
	}
	if c.NoRestartsDuration != nil {
		for _, cnd := range up.Status.Conditions {
			if cnd.Type == v1.ConditionTypePodRestarting && !cnd.LastUpdateTime.IsZero() {
				lim := cnd.LastUpdateTime.Add(c.NoRestartsDuration.Duration)
				if now.Before(lim) {
					return false, false, "promotion"
				}
				if now.Equal(lim) {
					either = true
				}
			}
		}
	}
	return !either, either, "promotion"
}

// rollbackCheck: C07 on an EDS reconcile that read a Canary-Failed up-to-date replica set.
func (m *Monitors) rollbackCheck(inv *simapi.Invocation, out kit.Outcome, v *edsView, upToDate, activeBefore *v1.ExtendedDaemonSetReplicaSet, written *v1.ExtendedDaemonSet, specWrite *simapi.Call) {
	if v.EDS.Spec.Strategy.Canary == nil || upToDate == nil || activeBefore == nil || upToDate.Name == activeBefore.Name {
		return
	}
	if !oracle.RSCond(upToDate, v1.ConditionTypeCanaryFailed) {
		return
	}
	ctx := m.w.Ctx
	if v.EDS.Annotations[v1.ExtendedDaemonSetCanaryValidAnnotationKey] == upToDate.Name {
		// explicitly validated *and* failed: C05 allows the promotion, C07 asks for the rollback;
		// the statements leave this corner open (either)
		ctx.Count("C07.failed-and-validated-either")
		return
	}
	ctx.Count("C07.failed-canary-reconciles")
	if out.Err != nil || invFaulted(inv) || inv.Nested {
		return // judged again at the next failure-free, un-interleaved reconcile / by C07.recoverable
	}
	ctx.Count("C07.rollbacks-judged")
	stored := kit.GetEDS(m.w.S, v.EDS.Namespace, v.EDS.Name)
	if stored == nil {
		return
	}
	// another actor may have edited the template meanwhile (N mode): judge the writes, then the store
	d := map[string]any{"failed-rs": upToDate.Name, "active": activeBefore.Name}
	activeMarker := kit.MarkerOfTemplate(&activeBefore.Spec.Template)
	attrs := map[string]string{"elapsed": fmt.Sprint(v.EDS.Spec.Strategy.Canary.Duration != nil && !time.Unix(0, inv.VTimeNanos).Before(upToDate.CreationTimestamp.Add(v.EDS.Spec.Strategy.Canary.Duration.Duration)))}
	if written != nil && written.Status.ActiveReplicaSet != activeBefore.Name {
		m.viol("C07", "C07.rollback-writes", merge(attrs, "cause", "active-replicaset-changed"), inv, d)
		return
	}
	if written != nil && written.Status.Canary != nil {
		m.viol("C07", "C07.rollback-writes", merge(attrs, "cause", "status-canary-not-cleared"), inv, d)
	}
	if specWrite == nil || specWrite.Submitted == nil {
		if kit.MarkerOfTemplate(&stored.Spec.Template) != activeMarker && m.templateEditsSince(inv) == 0 {
			m.viol("C07", "C07.rollback-writes", merge(attrs, "cause", "spec-template-not-restored"), inv, d)
		}
		return
	}
	if kit.MarkerOfTemplate(&specWrite.Submitted.(*v1.ExtendedDaemonSet).Spec.Template) != activeMarker {
		m.viol("C07", "C07.rollback-writes", merge(attrs, "cause", "spec-template-not-restored"), inv, d)
	} else if h := refTemplateHash(&specWrite.Submitted.(*v1.ExtendedDaemonSet).Spec.Template); activeBefore.Spec.TemplateGeneration != "" && h != activeBefore.Spec.TemplateGeneration {
		// "restores spec.template to the active replica set's template": the template the active replica set was
		// created from, whole (metadata included), i.e. the one its recorded hash stands for - anything else leaves
		// the ExtendedDaemonSet without an up-to-date replica set and starts another rollout
		d["hash-of-restored-template"] = h
		d["hash-recorded-by-active-replicaset"] = activeBefore.Spec.TemplateGeneration
		m.viol("C07", "C07.rollback-writes", merge(attrs, "cause", "restored-template-differs-from-the-one-the-active-replicaset-was-created-from"), inv, d)
	}
}

func (m *Monitors) templateEditsSince(inv *simapi.Invocation) int { return 0 }

func specEqual(a, b *corev1.PodTemplateSpec) bool {
	return kit.MarkerOfTemplate(a) == kit.MarkerOfTemplate(b) && fmt.Sprint(a.Spec.NodeSelector) == fmt.Sprint(b.Spec.NodeSelector) && len(a.Spec.Containers) == len(b.Spec.Containers) && len(a.Spec.Tolerations) == len(b.Spec.Tolerations)
}

// ---- PodTemplate invocations (C13) --------------------------------------------------------------------------

func (m *Monitors) onPodTemplate(inv *simapi.Invocation, out kit.Outcome) {
	if out.Err != nil || invFaulted(inv) || inv.Nested {
		return // judged against the store after the reconcile: only meaningful when nobody else acted meanwhile
	}
	var eds *v1.ExtendedDaemonSet
	for _, c := range inv.Calls {
		if c.Verb == "get" && c.Kind == simapi.KindEDS && len(c.Objs) == 1 {
			eds = c.Objs[0].(*v1.ExtendedDaemonSet)
		}
	}
	if eds == nil {
		return
	}
	pt := m.w.S.Peek(simapi.KindPodTpl, inv.NS, inv.Name)
	m.w.Ctx.Count("C13.podtemplate-judged")
	if pt == nil {
		m.viol("C13", "C13.podtemplate", map[string]string{"cause": "missing"}, inv, nil)
		return
	}
	p := pt.(*corev1.PodTemplate)
	if kit.MarkerOfTemplate(&p.Template) != kit.MarkerOfTemplate(&eds.Spec.Template) {
		m.viol("C13", "C13.podtemplate", map[string]string{"cause": "template-differs"}, inv, map[string]any{"podtemplate": kit.MarkerOfTemplate(&p.Template), "spec": kit.MarkerOfTemplate(&eds.Spec.Template)})
	} else if !specEqual(&p.Template, &eds.Spec.Template) || !apiequality.Semantic.DeepEqual(p.Template.Labels, eds.Spec.Template.Labels) {
		// "keeps the PodTemplate object ... equal to spec.template": the whole template, not only what
		// identifies it (a leftover nodeSelector, toleration or label of an earlier template counts)
		m.viol("C13", "C13.podtemplate", map[string]string{"cause": "template-content-differs"}, inv, map[string]any{"podtemplate": fmt.Sprintf("%+v", p.Template), "spec": fmt.Sprintf("%+v", eds.Spec.Template)})
	}
	// its hash annotation equals the hash of the replica set created for that template
	for _, rs := range kit.RSs(m.w.S) {
		if rs.Namespace == eds.Namespace && rs.Labels[v1.ExtendedDaemonSetNameLabelKey] == eds.Name && kit.MarkerOfTemplate(&rs.Spec.Template) == kit.MarkerOfTemplate(&eds.Spec.Template) && specEqual(&rs.Spec.Template, &eds.Spec.Template) {
			if p.Annotations[v1.MD5ExtendedDaemonSetAnnotationKey] != rs.Spec.TemplateGeneration {
				m.viol("C13", "C13.podtemplate", map[string]string{"cause": "hash-differs-from-replicaset"}, inv, nil)
			}
		}
	}
}
