package sim

import (
	"fmt"
	"time"

	metav1 "k8s.io/apimachinery/pkg/apis/meta/v1"

	v1 "github.com/DataDog/extendeddaemonset/api/v1alpha1"

	"sigs.k8s.io/controller-runtime/pkg/client"

	"vh/core"
	"vh/kit"
	"vh/simapi"
)

// C05Script: "a canary marked failed is never promoted by elapsed time", followed through a re-application: an
// auto-validated canary is failed by the user, the controller rolls spec.template back, and the user (a GitOps loop)
// applies the failed template again while the failed replica set still exists - with or without a restart of the
// controller process right after. The failed replica set matches spec.template again and its canary duration is long
// over: it carries Canary-Failed, no canary-valid annotation names it, so whatever else happens (another rollback, a
// wait) it must never become status.activeReplicaSet. The per-reconcile promotion rule judges every ExtendedDaemonSet
// reconcile on the way; the history and the end state are judged here.
type C05Script struct{}

func (e *C05Script) Name() string { return "sim.c05-script" }
func (e *C05Script) Rule() string {
	return "scripted: a six-minute-old manually validated canary failed by kubectl-eds canary fail, rollback, the failed template re-applied at once or a few rounds later together with auto validation and a duration of 5m (failed replica set still there) x controller restarted right after or not x duration long elapsed: the failed replica set never becomes the active one"
}
func (e *C05Script) Cases(tier string, _ int64) int {
	if tier == "thorough" {
		return 320
	}
	return 32
}
func (e *C05Script) Floors(string) map[string]int {
	return map[string]int{"C05.script-reapplied-failed-templates-judged": 20}
}

func (e *C05Script) Run(ctx *core.Ctx, idx int) {
	r := ctx.Rand
	n := 4 + r.Intn(3)
	restart := idx%2 == 1
	w := NewWorld(ctx, kit.CtlOpts{Affinity: (idx/2)%2 == 0})
	for i := 0; i < n; i++ {
		w.AddNode(kit.Node(fmt.Sprintf("n%d", i), map[string]string{"zone": []string{"a", "b"}[i%2]}))
	}
	f := false
	ed := &v1.ExtendedDaemonSet{ObjectMeta: metav1.ObjectMeta{Namespace: "ns1", Name: "foo"}}
	ed.Spec.Template = kit.Tpl("A")
	ed.Spec.Strategy.ReconcileFrequency = &metav1.Duration{Duration: time.Second}
	ed.Spec.Strategy.RollingUpdate.MaxUnavailable = kit.IS(2)
	ed.Spec.Strategy.RollingUpdate.SlowStartAdditiveIncrease = kit.IS(5)
	ed.Spec.Strategy.RollingUpdate.SlowStartIntervalDuration = &metav1.Duration{Duration: time.Second}
	// the canary starts in manual validation (elapsed time never promotes, so it can get old), the manifest applied
	// later switches to auto validation with a duration that is long over by then
	ed.Spec.Strategy.Canary = &v1.ExtendedDaemonSetSpecStrategyCanary{Replicas: kit.IS(1), ValidationMode: v1.ExtendedDaemonSetSpecStrategyCanaryValidationModeManual,
		AutoPause: &v1.ExtendedDaemonSetSpecStrategyCanaryAutoPause{Enabled: &f}}
	w.CreateEDS(ed)
	w.Coop = true
	rounds := func(k int) {
		for i := 0; i < k; i++ {
			w.Round(2 * time.Second)
		}
	}
	rounds(10 + 2*n)
	if w.finalOK("ns1", "foo", "A") != "" {
		ctx.Count("C05.script-setup-failed")
		return
	}
	activeBefore := kit.GetEDS(w.S, "ns1", "foo").Status.ActiveReplicaSet
	w.SetTemplate("ns1", "foo", kit.Tpl("B"))
	rounds(5)
	e0 := kit.GetEDS(w.S, "ns1", "foo")
	if e0 == nil || e0.Status.Canary == nil || e0.Status.ActiveReplicaSet != activeBefore {
		ctx.Count("C05.script-setup-failed")
		return
	}
	failedRS := e0.Status.Canary.ReplicaSet
	w.Advance(6 * time.Minute)
	rounds(2)
	if err := w.Kubectl("canary-fail", "ns1", "foo"); err != nil {
		ctx.Count("C05.script-setup-failed")
		return
	}
	// the re-application follows the rollback at once: right after the first ExtendedDaemonSet reconcile that restored
	// spec.template (in half of the cases), or a few rounds later
	rolledBack := false
	for try := 0; try < 5 && !rolledBack; try++ {
		w.Reconcile("ers", "ns1", failedRS)
		w.Reconcile("eds", "ns1", "foo")
		if e1 := kit.GetEDS(w.S, "ns1", "foo"); e1 != nil && kit.MarkerOfTemplate(&e1.Spec.Template) == "A" {
			rolledBack = true
		}
	}
	if !rolledBack || kit.GetRS(w.S, "ns1", failedRS) == nil {
		// the rollback itself is C07's business; without it (or without the failed replica set) there is nothing to re-apply onto
		ctx.Count("C05.script-no-rollback-to-build-on")
		return
	}
	if (idx/4)%2 == 1 {
		rounds(3)
		w.Advance(20 * time.Second)
	}
	w.S.Mutate(simapi.KindEDS, "ns1", "foo", func(o client.Object) {
		c := o.(*v1.ExtendedDaemonSet).Spec.Strategy.Canary
		c.ValidationMode = v1.ExtendedDaemonSetSpecStrategyCanaryValidationModeAuto
		c.Duration = &metav1.Duration{Duration: 5 * time.Minute}
	})
	w.SetTemplate("ns1", "foo", kit.Tpl("B"))
	w.tracef("user: the failed template is applied again, now with auto validation and a duration of 5m (replica set %s still exists and is older)", failedRS)
	if restart {
		w.Ctl.Rebuild()
		ctx.Count("C05.script-controller-restarts")
		w.tracef("*** controller process restarted right after the re-application")
	}
	ctx.Count("C05.script-reapplied-failed-templates-judged")
	ctx.Count("evaluations")
	ctx.Distinct("nontrivial", fmt.Sprintf("n=%d restart=%v aff=%v", n, restart, (idx/2)%2 == 0))
	attrs := map[string]string{"script": "failed-template-re-applied", "controllerRestarted": fmt.Sprint(restart)}
	for step := 0; step < 14; step++ {
		rounds(1)
		e2 := kit.GetEDS(w.S, "ns1", "foo")
		if e2 == nil {
			return
		}
		if e2.Status.ActiveReplicaSet == failedRS && e2.Annotations[v1.ExtendedDaemonSetCanaryValidAnnotationKey] != failedRS {
			w.Mon.viol("C05", "C05.failed-never-by-time", attrs, nil, map[string]any{"failed-replica-set": failedRS, "active-before": activeBefore, "step": step,
				"eds-status": fmt.Sprintf("%+v", e2.Status), "pods": w.podSummary("ns1", "foo")})
			return
		}
	}
}
