package sim

import (
	"fmt"
	"time"

	corev1 "k8s.io/api/core/v1"
	metav1 "k8s.io/apimachinery/pkg/apis/meta/v1"
	"sigs.k8s.io/controller-runtime/pkg/client"

	v1 "github.com/DataDog/extendeddaemonset/api/v1alpha1"

	"vh/core"
	"vh/kit"
	"vh/simapi"
)

// C07Script: the rollback of a failed canary from start to end, scripted: which node the canary sits on (one the
// active template can use, or one only the canary template can use), how the canary fails (kubectl-eds canary fail,
// restarts beyond autoFail.maxRestarts), whether it was paused before, then cooperative rounds. Judged at the
// end: spec.template and the pods are those of the active template again, the former canary node runs a pod of the
// active template where that template can run and no daemon pod where it cannot, status.canary is cleared, the
// active replica set is the one it was, and the failed replica set is gone once its two minutes are over.
type C07Script struct{}

func (e *C07Script) Name() string { return "sim.c07-script" }
func (e *C07Script) Rule() string {
	return "scripted failed canaries x seeded (4-7 nodes, assignment mode, canary on a node the active template can / cannot use (the canary template tolerates a taint the active one does not), failure by kubectl-eds canary fail / by restarts, paused before or not, canary replica set new or formerly active): template edit, canary pod Ready and labelled, failure, cooperative rounds, three minutes, more rounds; judged: one Ready pod of the active template on every node it can use and no other daemon pod, spec.template restored, status.canary cleared, status.activeReplicaSet unchanged, failed replica set collected; non-trivial = distinct (nodes, mode, canary node usable, failure kind, paused) tuples"
}
func (e *C07Script) Cases(tier string, _ int64) int {
	if tier == "thorough" {
		return 1600
	}
	return 160
}
func (e *C07Script) Floors(string) map[string]int {
	return map[string]int{"C07.script-rollbacks-judged": 100}
}

func (e *C07Script) Run(ctx *core.Ctx, idx int) {
	r := ctx.Rand
	n := 4 + r.Intn(4)
	aff := r.Intn(2) == 0
	usable := idx%2 == 0
	byCmd := (idx/2)%2 == 0
	paused := (idx/4)%2 == 0
	// one case in five: the canary replica set is one that has been the active one before (the template is taken
	// back to an earlier one after another had been promoted); the canary node is then usable by both templates
	formerlyActive := idx%5 == 4
	if formerlyActive {
		usable = true
	}
	w := NewWorld(ctx, kit.CtlOpts{Affinity: aff})
	for i := 0; i < n; i++ {
		nd := kit.Node(fmt.Sprintf("n%d", i), map[string]string{"zone": []string{"a", "b"}[i%2]})
		if i == n-1 {
			nd.Labels["pool"] = "canary"
			if !usable {
				nd.Spec.Taints = []corev1.Taint{{Key: "dedicated", Value: "infra", Effect: corev1.TaintEffectNoSchedule}}
			}
		}
		w.AddNode(nd)
	}
	canaryNode := fmt.Sprintf("n%d", n-1)
	ed := &v1.ExtendedDaemonSet{ObjectMeta: metav1.ObjectMeta{Namespace: "ns1", Name: "foo"}}
	ed.Spec.Template = kit.Tpl("A")
	ed.Spec.Strategy.ReconcileFrequency = &metav1.Duration{Duration: time.Second}
	ed.Spec.Strategy.RollingUpdate.MaxUnavailable = kit.IS(1 + r.Intn(2))
	ed.Spec.Strategy.RollingUpdate.SlowStartAdditiveIncrease = kit.IS(2)
	ed.Spec.Strategy.RollingUpdate.SlowStartIntervalDuration = &metav1.Duration{Duration: time.Second}
	ed.Spec.Strategy.Canary = &v1.ExtendedDaemonSetSpecStrategyCanary{Replicas: kit.IS(1), ValidationMode: v1.ExtendedDaemonSetSpecStrategyCanaryValidationModeManual,
		NodeSelector: &metav1.LabelSelector{MatchLabels: map[string]string{"pool": "canary"}}}
	w.CreateEDS(ed)
	w.Coop = true
	rounds := func(k int) {
		for i := 0; i < k; i++ {
			w.Round(2 * time.Second)
		}
	}
	rounds(10 + 2*n)
	if w.finalOK("ns1", "foo", "A") != "" {
		ctx.Count("C07.script-setup-failed")
		return
	}
	live := "A"
	tb := kit.Tpl("B")
	tb.Spec.Tolerations = []corev1.Toleration{{Key: "dedicated", Operator: corev1.TolerationOpExists, Effect: corev1.TaintEffectNoSchedule}}
	if formerlyActive {
		// A active -> Z promoted by explicit validation -> template taken back to A while Z is still rolling out: the
		// replica set of A, active a moment ago, is reused and is the canary now
		w.SetTemplate("ns1", "foo", kit.Tpl("Z"))
		rounds(6)
		if err := w.Kubectl("canary-validate", "ns1", "foo"); err != nil {
			ctx.Count("C07.script-setup-failed")
			return
		}
		// (the rolling update to Z is still in progress: the replica set of A still reports pods, so it still exists
		// and is reused when the template goes back to A)
		rounds(3)
		eZ := kit.GetEDS(w.S, "ns1", "foo")
		stillThere := false
		for _, rs := range kit.RSs(w.S) {
			if kit.MarkerOfTemplate(&rs.Spec.Template) == "A" && rs.DeletionTimestamp == nil {
				stillThere = true
			}
		}
		if eZ.Status.Canary != nil || !stillThere {
			ctx.Count("C07.script-setup-failed")
			return
		}
		live = "Z"
		tb = kit.Tpl("A")
	}
	canaryMarker := kit.MarkerOfTemplate(&tb)
	activeBefore := kit.GetEDS(w.S, "ns1", "foo").Status.ActiveReplicaSet
	w.SetTemplate("ns1", "foo", tb)
	rounds(8)
	var canaryPod *corev1.Pod
	for _, p := range w.DaemonPods("ns1", "foo") {
		if kit.MarkerOfPod(p) == canaryMarker && kit.NodeOfPod(p) == canaryNode && kit.IsReady(p) {
			canaryPod = p
		}
	}
	e0 := kit.GetEDS(w.S, "ns1", "foo")
	if canaryPod == nil || e0.Status.Canary == nil {
		ctx.Count("C07.script-setup-failed")
		return
	}
	failedRS := e0.Status.Canary.ReplicaSet
	ctx.Distinct("nontrivial", fmt.Sprintf("%d|%v|%v|%v|%v|%v", n, aff, usable, byCmd, paused, formerlyActive))
	attrs := map[string]string{"canaryOnAFormerlyActiveReplicaSet": fmt.Sprint(formerlyActive), "canaryNodeUsableByActiveTemplate": fmt.Sprint(usable), "failedBy": map[bool]string{true: "command", false: "restarts"}[byCmd], "pausedBefore": fmt.Sprint(paused)}
	desc := map[string]any{"nodes": n, "affinityMode": aff, "canaryNode": canaryNode}
	if paused {
		_ = w.Kubectl("canary-pause", "ns1", "foo")
		rounds(2)
	}
	if byCmd {
		if err := w.Kubectl("canary-fail", "ns1", "foo"); err != nil {
			ctx.Count("C07.script-setup-failed")
			return
		}
	} else {
		w.S.Mutate(simapi.KindPod, canaryPod.Namespace, canaryPod.Name, func(o client.Object) {
			pp := o.(*corev1.Pod)
			if len(pp.Status.ContainerStatuses) > 0 {
				pp.Status.ContainerStatuses[0].RestartCount = 9
				pp.Status.ContainerStatuses[0].LastTerminationState = corev1.ContainerState{Terminated: &corev1.ContainerStateTerminated{Reason: "Error", ExitCode: 1, FinishedAt: metav1.NewTime(w.Now())}}
			}
		})
		w.tracef("env: canary pod %s restarted 9 times", canaryPod.Name)
	}
	rounds(12 + 2*n)
	w.Advance(3 * time.Minute)
	rounds(6)
	ctx.Count("C07.script-rollbacks-judged")
	ctx.Count("evaluations")
	fail := func(cause, why string) {
		w.Mon.viol("C07", "C07.script-rollback", merge(attrs, "cause", cause), nil, map[string]any{"case": desc, "why": why, "pods": w.podSummary("ns1", "foo"), "state": string(kit.GetEDS(w.S, "ns1", "foo").Status.State)})
	}
	e1 := kit.GetEDS(w.S, "ns1", "foo")
	if !oracleFailed(w, failedRS) && !byCmd {
		// nine restarts are above the default autoFail.maxRestarts: whether they fail the canary is C06's business
		ctx.Count("C07.script-auto-fail-did-not-fire")
		return
	}
	if kit.MarkerOfTemplate(&e1.Spec.Template) != live {
		fail("spec-template-not-restored", "spec.template is "+kit.MarkerOfTemplate(&e1.Spec.Template))
		return
	}
	if e1.Status.Canary != nil {
		fail("status-canary-not-cleared", fmt.Sprintf("status.canary=%+v", *e1.Status.Canary))
	}
	if e1.Status.ActiveReplicaSet != activeBefore {
		fail("active-replicaset-changed", e1.Status.ActiveReplicaSet+" was "+activeBefore)
	}
	if why := w.finalOK("ns1", "foo", live); why != "" {
		fail("canary-pods-not-replaced", why)
	}
	if kit.GetRS(w.S, "ns1", failedRS) != nil {
		fail("failed-replicaset-not-collected", failedRS+" still exists three minutes after the failure and reports "+fmt.Sprintf("%+v", kit.GetRS(w.S, "ns1", failedRS).Status))
	}
}

// oracleFailed: the replica set carried Canary-Failed at some point of the run (it may be gone by now).
func oracleFailed(w *World, rs string) bool {
	if st := kit.GetRS(w.S, "ns1", rs); st != nil {
		return kit.CondTrue(&st.Status, v1.ConditionTypeCanaryFailed)
	}
	return true
}
