package sim

import (
	"fmt"
	"time"

	corev1 "k8s.io/api/core/v1"
	metav1 "k8s.io/apimachinery/pkg/apis/meta/v1"
	"sigs.k8s.io/controller-runtime/pkg/client"

	v1 "github.com/DataDog/extendeddaemonset/api/v1alpha1"

	"vh/core"
	"vh/kit"
	"vh/simapi"
)

// C15Script: the canary node selector is edited in place while the canary runs and the same controller instance has
// to select again afterwards (replicas raised, a selected node deleted, a selected node relabelled out of the old
// pool). Whatever the controller remembers from the first selection, every name it lists from then on refers to an
// existing node that matches the selector as it is written *now*, the list has as many distinct names as requested,
// or the reconcile reports an error. The per-reconcile rules (C15.valid, distinct, count) judge every status write on
// the way; the end state is judged here.
type C15Script struct{}

func (e *C15Script) Name() string { return "sim.c15-script" }
func (e *C15Script) Rule() string {
	return "scripted canaries x (6-9 nodes in two pools, canary nodeSelector pool=a, 2 replicas, with / without nodeAntiAffinityKeys) x the selector edited to pool=b during the canary x what forces a new selection (replicas raised to 3, raised and a selected node deleted; with the count unchanged - a selected node deleted or relabelled - only the per-reconcile rules judge) x same controller instance or restarted"
}
func (e *C15Script) Cases(tier string, _ int64) int {
	if tier == "thorough" {
		return 640
	}
	return 64
}
func (e *C15Script) Floors(string) map[string]int {
	return map[string]int{"C15.script-selector-edits-judged": 24}
}

func (e *C15Script) Run(ctx *core.Ctx, idx int) {
	r := ctx.Rand
	n := 6 + r.Intn(4)
	force := idx % 4       // 0 replicas raised, 1 replicas raised and a selected node deleted, 2 a selected node deleted, 3 a selected node relabelled
	anti := (idx/4)%2 == 0 // nodeAntiAffinityKeys
	restart := (idx/8)%4 == 3
	w := NewWorld(ctx, kit.CtlOpts{Affinity: r.Intn(2) == 0})
	for i := 0; i < n; i++ {
		w.AddNode(kit.Node(fmt.Sprintf("n%d", i), map[string]string{"pool": []string{"a", "b"}[i%2], "zone": []string{"x", "y", "z"}[i%3]}))
	}
	ed := &v1.ExtendedDaemonSet{ObjectMeta: metav1.ObjectMeta{Namespace: "ns1", Name: "foo"}}
	ed.Spec.Template = kit.Tpl("A")
	ed.Spec.Strategy.ReconcileFrequency = &metav1.Duration{Duration: time.Second}
	ed.Spec.Strategy.RollingUpdate.MaxUnavailable = kit.IS(2)
	ed.Spec.Strategy.RollingUpdate.SlowStartAdditiveIncrease = kit.IS(5)
	ed.Spec.Strategy.RollingUpdate.SlowStartIntervalDuration = &metav1.Duration{Duration: time.Second}
	ed.Spec.Strategy.Canary = &v1.ExtendedDaemonSetSpecStrategyCanary{Replicas: kit.IS(2), ValidationMode: v1.ExtendedDaemonSetSpecStrategyCanaryValidationModeManual,
		NodeSelector: &metav1.LabelSelector{MatchLabels: map[string]string{"pool": "a"}}}
	if anti {
		ed.Spec.Strategy.Canary.NodeAntiAffinityKeys = []string{"zone"}
	}
	w.CreateEDS(ed)
	w.Coop = true
	rounds := func(k int) {
		for i := 0; i < k; i++ {
			w.Round(2 * time.Second)
		}
	}
	rounds(10 + 2*n)
	if w.finalOK("ns1", "foo", "A") != "" {
		ctx.Count("C15.script-setup-failed")
		return
	}
	w.SetTemplate("ns1", "foo", kit.Tpl("B"))
	rounds(5)
	e0 := kit.GetEDS(w.S, "ns1", "foo")
	if e0 == nil || e0.Status.Canary == nil || len(e0.Status.Canary.Nodes) != 2 {
		ctx.Count("C15.script-setup-failed")
		return
	}
	first := append([]string{}, e0.Status.Canary.Nodes...)
	// the user moves the canary to the other pool
	want := 2
	w.S.Mutate(simapi.KindEDS, "ns1", "foo", func(o client.Object) {
		c := o.(*v1.ExtendedDaemonSet).Spec.Strategy.Canary
		c.NodeSelector = &metav1.LabelSelector{MatchLabels: map[string]string{"pool": "b"}}
		if force <= 1 {
			c.Replicas = kit.IS(3)
			want = 3
		}
	})
	w.tracef("user: canary nodeSelector of ns1/foo edited to pool=b (force=%d)", force)
	switch force {
	case 1, 2:
		w.RemoveNode(first[0])
	case 3:
		w.MutateNode(first[0], "relabelled pool=c", func(nd *corev1.Node) { nd.Labels["pool"] = "c" })
	}
	if restart {
		w.Ctl.Rebuild()
		w.tracef("controllers restarted")
	}
	rounds(8)
	e1 := kit.GetEDS(w.S, "ns1", "foo")
	in, _, up := w.CanaryInProgress("ns1", "foo")
	if e1 == nil || !in || up == nil || e1.Status.Canary == nil {
		ctx.Count("C15.script-canary-ended")
		return
	}
	ctx.Count("evaluations")
	if force > 1 {
		// the requested count did not change: whether the controller has to look at its list again at all is the open
		// known finding KF-C15-stale-canary-nodes; the per-reconcile rule C15.valid, which knows whether a selection ran,
		// judges these histories, not the end state
		ctx.Count("C15.script-selector-edits-without-count-change")
		return
	}
	ctx.Count("C15.script-selector-edits-judged")
	ctx.Distinct("nontrivial", fmt.Sprintf("n=%d force=%d anti=%v restart=%v first=%v", n, force, anti, restart, first))
	attrs := map[string]string{"script": "selector-edited-during-canary", "forcedBy": []string{"replicas-raised", "replicas-raised-and-selected-node-deleted", "selected-node-deleted", "selected-node-relabelled"}[force], "antiAffinity": fmt.Sprint(anti), "controllerRestarted": fmt.Sprint(restart)}
	sel := e1.Spec.Strategy.Canary.NodeSelector
	nodes := map[string]map[string]string{}
	matching := 0
	for _, nd := range kit.Nodes(w.S) {
		nodes[nd.Name] = nd.Labels
		if canarySelectorMatches(sel, nd.Labels) {
			matching++
		}
	}
	desc := map[string]any{"first-selection": first, "nodes-now": e1.Status.Canary.Nodes, "selector-now": fmt.Sprint(sel), "nodes": nodes, "last-eds-error": w.LastErr["eds ns1/foo"]}
	seen := map[string]bool{}
	for _, name := range e1.Status.Canary.Nodes {
		lb, ok := nodes[name]
		switch {
		case !ok:
			w.Mon.viol("C15", "C15.valid", merge(attrs, "cause", "node-does-not-exist"), nil, desc)
			return
		case !canarySelectorMatches(sel, lb):
			w.Mon.viol("C15", "C15.valid", merge(attrs, "cause", "node-does-not-match-canary-selector"), nil, desc)
			return
		case seen[name]:
			w.Mon.viol("C15", "C15.distinct", attrs, nil, desc)
			return
		}
		seen[name] = true
	}
	if matching >= want && len(seen) != want && w.LastErr["eds ns1/foo"] == "" {
		w.Mon.viol("C15", "C15.count", merge(attrs, "cause", "fewer-or-more-than-requested-without-error"), nil, desc)
	}
}
