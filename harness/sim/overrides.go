package sim

import (
	"encoding/json"
	"fmt"
	"math/rand"
	"sort"
	"strings"

	autoscalingv1 "k8s.io/api/autoscaling/v1"
	corev1 "k8s.io/api/core/v1"
	apiequality "k8s.io/apimachinery/pkg/api/equality"
	"k8s.io/apimachinery/pkg/api/resource"
	metav1 "k8s.io/apimachinery/pkg/apis/meta/v1"
	"k8s.io/apimachinery/pkg/labels"
	"sigs.k8s.io/controller-runtime/pkg/client"

	v1 "github.com/DataDog/extendeddaemonset/api/v1alpha1"

	"vh/kit"
	"vh/simapi"
)

// Node resource overrides and ExtendedDaemonsetSettings in simulated histories: the C10 clauses
// "resources resolved as node-annotation override, else the valid setting selecting the node,
// else the template" and "a pod just created for given inputs is never replaced spuriously", and
// the C18 clause "only valid settings influence pods", judged on the real sync path (many pods
// per sync, overrides and settings that change while pods exist).

const ovContainer = "main"

func ovAnnKey(ns, eds string) string {
	return fmt.Sprintf(v1.ExtendedDaemonSetRessourceNodeAnnotationKey, ns, eds, ovContainer)
}

func ovRes(cpu string) corev1.ResourceRequirements {
	return corev1.ResourceRequirements{Requests: corev1.ResourceList{corev1.ResourceCPU: resource.MustParse(cpu)}}
}

var ovCPUs = []string{"100m", "250m", "1", "2500m", "1000m", "0.5"} // incl. valid non-canonical spellings

var ovSelectors = []map[string]string{{"zone": "a"}, {"zone": "b"}, {"role": "agent"}, {"zone": "c", "role": "agent"}, {}}

// settingsOf lists the stored settings of a namespace.
func (w *World) settingsOf(ns string) []*v1.ExtendedDaemonsetSetting {
	var out []*v1.ExtendedDaemonsetSetting
	for _, o := range w.S.All(simapi.KindSetting) {
		if o.GetNamespace() == ns {
			out = append(out, o.(*v1.ExtendedDaemonsetSetting))
		}
	}
	sort.Slice(out, func(i, j int) bool { return out[i].Name < out[j].Name })
	return out
}

func (w *World) newSetting(r *rand.Rand, ns, eds string) {
	name := fmt.Sprintf("set-%s-%d", eds, r.Intn(4))
	if w.S.Peek(simapi.KindSetting, ns, name) != nil {
		return
	}
	s := &v1.ExtendedDaemonsetSetting{ObjectMeta: metav1.ObjectMeta{Namespace: ns, Name: name, CreationTimestamp: metav1.NewTime(w.Now())}}
	s.Spec.Reference = &autoscalingv1.CrossVersionObjectReference{Name: eds, Kind: "ExtendedDaemonset"}
	if r.Intn(8) == 0 {
		s.Spec.Reference = nil // in error: must never influence a pod
	}
	s.Spec.NodeSelector = metav1.LabelSelector{MatchLabels: ovSelectors[r.Intn(len(ovSelectors))]}
	cn := ovContainer
	k := r.Intn(6)
	if k == 0 {
		cn = "sidecar" // names a container the template does not have
	}
	s.Spec.Containers = []v1.ExtendedDaemonsetSettingContainerSpec{{Name: cn, Resources: ovRes(ovCPUs[r.Intn(len(ovCPUs))])}}
	if k == 1 || k == 2 {
		// a setting for two containers (the second one absent from the template); one setting object is
		// attached to every node it selects, also to nodes whose annotation overrides the first container
		s.Spec.Containers = append(s.Spec.Containers, v1.ExtendedDaemonsetSettingContainerSpec{Name: "sidecar", Resources: ovRes(ovCPUs[r.Intn(len(ovCPUs))])})
	}
	w.S.Inject(s)
	w.tracef("user: create setting %s/%s selector=%v container=%s resources=%v", ns, name, s.Spec.NodeSelector.MatchLabels, cn, s.Spec.Containers[0].Resources.Requests)
}

// overridesSetup gives some nodes an override annotation and creates up to two settings.
func (w *World) overridesSetup(r *rand.Rand, ns, eds string) {
	w.HasOverrides = true
	for _, n := range w.SortedNodeNames() {
		if r.Intn(3) == 0 {
			w.setOverride(r, n, ns, eds)
		}
	}
	for i := r.Intn(3); i > 0; i-- {
		w.newSetting(r, ns, eds)
	}
}

func (w *World) setOverride(r *rand.Rand, node, ns, eds string) {
	b, _ := json.Marshal(ovRes(ovCPUs[r.Intn(len(ovCPUs))]))
	val := string(b)
	if r.Intn(12) == 0 {
		val = `{"requests": nope`
	}
	key := ovAnnKey(ns, eds)
	if r.Intn(6) == 0 {
		// written for a container the template does not have (init container, renamed, typo): no effect on the pod
		key = fmt.Sprintf(v1.ExtendedDaemonSetRessourceNodeAnnotationKey, ns, eds, []string{"init-volume", "sidecar"}[r.Intn(2)])
	}
	w.MutateNode(node, "override annotation "+key+"="+val, func(n *corev1.Node) {
		if n.Annotations == nil {
			n.Annotations = map[string]string{}
		}
		n.Annotations[key] = val
	})
}

// overridesAction: the user edits overrides / settings, or the setting controller runs.
func (w *World) overridesAction(r *rand.Rand, ns, eds string) {
	nodes := w.SortedNodeNames()
	sets := w.settingsOf(ns)
	switch r.Intn(9) {
	case 8:
		// the user deletes a setting and re-creates it at once under the same name with other resources (a new
		// object: new uid, generation 1 again); its validity is the setting controller's business again
		if len(sets) > 0 {
			old := sets[r.Intn(len(sets))]
			cpu := ovCPUs[r.Intn(len(ovCPUs))]
			w.S.Remove(simapi.KindSetting, ns, old.Name)
			n := &v1.ExtendedDaemonsetSetting{ObjectMeta: metav1.ObjectMeta{Namespace: ns, Name: old.Name, CreationTimestamp: metav1.NewTime(w.Now())}}
			n.Spec = *old.Spec.DeepCopy()
			if len(n.Spec.Containers) > 0 {
				n.Spec.Containers[0].Resources = ovRes(cpu)
			}
			if r.Intn(2) == 0 {
				n.Spec.NodeSelector = metav1.LabelSelector{MatchLabels: ovSelectors[r.Intn(len(ovSelectors))]}
			}
			w.S.Inject(n)
			w.tracef("user: delete setting %s/%s and re-create it under the same name: selector=%v cpu=%s", ns, old.Name, n.Spec.NodeSelector.MatchLabels, cpu)
			w.Reconcile("setting", ns, old.Name)
		}
	case 0:
		if len(nodes) > 0 {
			w.setOverride(r, nodes[r.Intn(len(nodes))], ns, eds)
		}
	case 1:
		if len(nodes) > 0 {
			w.MutateNode(nodes[r.Intn(len(nodes))], "override annotation removed", func(n *corev1.Node) { delete(n.Annotations, ovAnnKey(ns, eds)) })
		}
	case 2:
		w.newSetting(r, ns, eds)
	case 3:
		if len(sets) > 0 {
			s := sets[r.Intn(len(sets))]
			w.S.Remove(simapi.KindSetting, ns, s.Name)
			w.tracef("user: delete setting %s/%s", ns, s.Name)
		}
	case 4:
		if len(sets) > 0 {
			s := sets[r.Intn(len(sets))]
			cpu := ovCPUs[r.Intn(len(ovCPUs))]
			w.S.Mutate(simapi.KindSetting, ns, s.Name, func(o client.Object) {
				ss := o.(*v1.ExtendedDaemonsetSetting)
				if len(ss.Spec.Containers) > 0 {
					ss.Spec.Containers[0].Resources = ovRes(cpu)
				}
			})
			w.tracef("user: setting %s/%s resources -> cpu %s", ns, s.Name, cpu)
		}
	default:
		if len(sets) > 0 {
			w.Reconcile("setting", ns, sets[r.Intn(len(sets))].Name)
		}
	}
}

// podInputs is what determines the resources of a pod created for a node.
type podInputs struct {
	Hash      string
	Ann       string
	Other     string // override annotations of this ExtendedDaemonSet for other container names
	Setting   string
	Ambiguous bool
}

// acceptableResources returns the resources container "main" may get on node per the statement,
// from what the sync read, plus the digest of the inputs.
func (v *ERSView) acceptableResources(node *corev1.Node) ([]corev1.ResourceRequirements, podInputs) {
	in := podInputs{Hash: v.RS.Spec.TemplateGeneration}
	var tpl corev1.ResourceRequirements
	for _, c := range v.RS.Spec.Template.Spec.Containers {
		if c.Name == ovContainer {
			tpl = c.Resources
		}
	}
	// every override annotation of this ExtendedDaemonSet on the node is an input of the comparison
	// (also one written for a container the template does not have)
	prefix := fmt.Sprintf(v1.ExtendedDaemonSetRessourceNodeAnnotationKey, v.EDS.Namespace, v.EDS.Name, "")
	var all []string
	for k, a := range node.Annotations {
		if strings.HasPrefix(k, prefix) && k != ovAnnKey(v.EDS.Namespace, v.EDS.Name) {
			all = append(all, k+"="+a)
		}
	}
	sort.Strings(all)
	in.Other = strings.Join(all, ";")
	if a, ok := node.Annotations[ovAnnKey(v.EDS.Namespace, v.EDS.Name)]; ok {
		in.Ann = a
		var rr corev1.ResourceRequirements
		if json.Unmarshal([]byte(a), &rr) == nil {
			return []corev1.ResourceRequirements{rr}, in
		}
		// malformed: falls through to the setting / the template
	}
	var acc []corev1.ResourceRequirements
	for _, s := range v.Settings {
		if s.Spec.Reference == nil || s.Spec.Reference.Name != v.EDS.Name || s.Status.Status != v1.ExtendedDaemonsetSettingStatusValid {
			continue
		}
		sel, err := metav1.LabelSelectorAsSelector(&s.Spec.NodeSelector)
		if err != nil || !sel.Matches(labels.Set(node.Labels)) {
			continue
		}
		want := tpl
		for _, c := range s.Spec.Containers {
			if c.Name == ovContainer {
				want = c.Resources
			}
		}
		dup := false
		for _, x := range acc {
			if apiequality.Semantic.DeepEqual(x, want) {
				dup = true
			}
		}
		if !dup {
			acc = append(acc, want)
		}
	}
	if len(acc) == 0 {
		return []corev1.ResourceRequirements{tpl}, in
	}
	b, _ := json.Marshal(acc)
	in.Setting = string(b)
	in.Ambiguous = len(acc) > 1
	return acc, in
}

// judgeCreatedResources: C10 resources precedence on a pod a sync created.
func (m *Monitors) judgeCreatedResources(inv *simapi.Invocation, v *ERSView, c *simapi.Call, pod *corev1.Pod) {
	node := v.Nodes[kit.NodeOfPod(pod)]
	if node == nil {
		return
	}
	acc, in := v.acceptableResources(node)
	ctx := m.w.Ctx
	ctx.Count("C10.sim-resources-judged")
	switch {
	case in.Ann != "":
		ctx.Count("C10.sim-creates-with-annotation")
	case in.Setting != "":
		ctx.Count("C10.sim-creates-with-setting")
	}
	var got corev1.ResourceRequirements
	for _, pc := range pod.Spec.Containers {
		if pc.Name == ovContainer {
			got = pc.Resources
		}
	}
	ok := false
	for _, want := range acc {
		if apiequality.Semantic.DeepEqual(want, got) {
			ok = true
		}
	}
	if !ok {
		src := "template"
		if in.Ann != "" {
			src = "annotation"
		} else if in.Setting != "" {
			src = "setting"
		}
		m.viol("C10", "C10.resources-precedence", map[string]string{"sim": "true", "expected-from": src}, inv,
			map[string]any{"node": node.Name, "got": got, "acceptable": acc, "annotation": in.Ann, "settings-as-read": describeSettings(v.Settings)})
		// C18: "only valid settings influence pods"
		for _, st := range v.Settings {
			if st.Status.Status == v1.ExtendedDaemonsetSettingStatusValid || st.Spec.Reference == nil || st.Spec.Reference.Name != v.EDS.Name {
				continue
			}
			for _, c := range st.Spec.Containers {
				if c.Name == ovContainer && apiequality.Semantic.DeepEqual(c.Resources, got) {
					m.viol("C18", "C18.only-valid-settings-influence-pods", map[string]string{"sim": "true", "settingStatus": string(st.Status.Status)}, inv, map[string]any{"node": node.Name, "setting": st.Name, "got": got})
				}
			}
		}
		// C12: were they taken from an override or a setting of another ExtendedDaemonSet?
		own := ovAnnKey(v.EDS.Namespace, v.EDS.Name)
		for k, a := range node.Annotations {
			var rr corev1.ResourceRequirements
			if k != own && strings.HasSuffix(k, "."+ovContainer) && json.Unmarshal([]byte(a), &rr) == nil && apiequality.Semantic.DeepEqual(rr, got) {
				m.viol("C12", "C12.foreign-object-influence", map[string]string{"through": "node-annotation"}, inv, map[string]any{"node": node.Name, "annotation": k, "got": got})
			}
		}
		for _, s := range v.Settings {
			if s.Spec.Reference != nil && s.Spec.Reference.Name == v.EDS.Name {
				continue
			}
			for _, c := range s.Spec.Containers {
				if c.Name == ovContainer && apiequality.Semantic.DeepEqual(c.Resources, got) {
					m.viol("C12", "C12.foreign-object-influence", map[string]string{"through": "setting"}, inv, map[string]any{"node": node.Name, "setting": s.Name, "got": got})
				}
			}
		}
	}
	if c.Post != nil && c.Applied() {
		m.created[podKey(c.Post.(*corev1.Pod))] = &in
	}
}

func describeSettings(ss []*v1.ExtendedDaemonsetSetting) []string {
	var out []string
	for _, s := range ss {
		ref := "<nil>"
		if s.Spec.Reference != nil {
			ref = s.Spec.Reference.Name
		}
		out = append(out, fmt.Sprintf("%s ref=%s status=%s selector=%v containers=%v", s.Name, ref, s.Status.Status, s.Spec.NodeSelector.MatchLabels, s.Spec.Containers))
	}
	return out
}

// judgeSpuriousReplace: C10 "never replaced spuriously": an update deletion of a pod this
// replica set created, while every input of its creation reads the same now.
func (m *Monitors) judgeSpuriousReplace(inv *simapi.Invocation, v *ERSView, c *simapi.Call, pre *corev1.Pod, phaseAsRead corev1.PodPhase, alone, eligible bool) {
	rec := m.created[podKey(pre)]
	node := v.Nodes[kit.NodeOfPod(pre)]
	if rec == nil || node == nil || !alone || !eligible {
		return
	}
	if pre.Labels[v1.ExtendedDaemonSetReplicaSetNameLabelKey] != v.RS.Name || pre.DeletionTimestamp != nil || pre.Spec.NodeName == "" && !m.w.Ctl.Opts.Affinity {
		return
	}
	if phaseAsRead == corev1.PodFailed || phaseAsRead == corev1.PodUnknown || phaseAsRead == corev1.PodSucceeded {
		return
	}
	if (v.Role == "active" && v.Canary[node.Name]) || (v.Role == "canary" && !v.Canary[node.Name]) || (v.Role != "active" && v.Role != "canary") {
		return
	}
	_, now := v.acceptableResources(node)
	m.w.Ctx.Count("C10.sim-update-deletes-of-own-pods-judged")
	if rec.Ambiguous || now.Ambiguous || *rec != now {
		return
	}
	m.viol("C10", "C10.spurious-replace", map[string]string{"sim": "true", "with-annotation": fmt.Sprint(now.Ann != ""), "with-setting": fmt.Sprint(now.Setting != "")}, inv,
		map[string]any{"pod": podKey(pre), "node": node.Name, "inputs": now, "callsite": c.Callsite})
}

// atFixpointOverrides: quiescent-state clauses of C10 ("recognised as outdated when the node's
// override annotation changes or a resource value demanded by the applicable setting differs from
// the pod's": at a fixpoint no such pod may be left) and of C18 (each setting has been reconciled
// against the final state several times: at most one valid setting per node).
func (m *Monitors) atFixpointOverrides(ns, name string) {
	w := m.w
	ctx := w.Ctx
	e := kit.GetEDS(w.S, ns, name)
	if e == nil {
		return
	}
	sets := w.settingsOf(ns)
	nodes := map[string]*corev1.Node{}
	for _, n := range kit.Nodes(w.S) {
		nodes[n.Name] = n
		var valid []string
		for _, s := range sets {
			if s.Status.Status != v1.ExtendedDaemonsetSettingStatusValid {
				continue
			}
			sel, err := metav1.LabelSelectorAsSelector(&s.Spec.NodeSelector)
			if err == nil && sel.Matches(labels.Set(n.Labels)) {
				valid = append(valid, s.Name)
			}
		}
		ctx.Count("C18.sim-nodes-judged-at-fixpoint")
		if len(valid) > 1 {
			m.viol("C18", "C18.mutual-exclusion", map[string]string{"sim": "true"}, nil, map[string]any{"node": n.Name, "labels": n.Labels, "valid-settings": valid, "settings": describeSettings(sets)})
		}
	}
	for _, s := range sets {
		if s.Spec.Reference == nil && s.Status.Status == v1.ExtendedDaemonsetSettingStatusValid {
			m.viol("C18", "C18.no-reference-in-error", map[string]string{"sim": "true"}, nil, map[string]any{"setting": s.Name})
		}
	}
	for _, p := range w.DaemonPods(ns, name) {
		n := nodes[kit.NodeOfPod(p)]
		if n == nil || p.Status.Phase == corev1.PodUnknown || p.DeletionTimestamp != nil {
			continue
		}
		rs := kit.GetRS(w.S, ns, p.Labels[v1.ExtendedDaemonSetReplicaSetNameLabelKey])
		if rs == nil {
			continue
		}
		v := &ERSView{RS: rs, EDS: e, Settings: sets}
		acc, in := v.acceptableResources(n)
		if in.Ambiguous {
			continue
		}
		var got corev1.ResourceRequirements
		for _, pc := range p.Spec.Containers {
			if pc.Name == ovContainer {
				got = pc.Resources
			}
		}
		ctx.Count("C10.sim-pods-judged-at-fixpoint")
		d := map[string]any{"pod": p.Name, "node": n.Name, "got": got, "annotation": in.Ann, "demanded": acc, "settings": describeSettings(sets)}
		switch {
		case in.Ann != "" && len(acc) == 1 && in.Setting == "":
			var rr corev1.ResourceRequirements
			if json.Unmarshal([]byte(in.Ann), &rr) == nil && !apiequality.Semantic.DeepEqual(rr, got) {
				m.viol("C10", "C10.outdated-recognised", map[string]string{"sim": "true", "input": "annotation"}, nil, d)
			}
		case in.Setting != "":
			// every resource value the applicable setting demands must be the pod's
			want := acc[0]
			bad := false
			for k, q := range want.Requests {
				if g, ok := got.Requests[k]; !ok || g.Cmp(q) != 0 {
					bad = true
				}
			}
			for k, q := range want.Limits {
				if g, ok := got.Limits[k]; !ok || g.Cmp(q) != 0 {
					bad = true
				}
			}
			settingNamesContainer := false
			for _, s := range sets {
				for _, c := range s.Spec.Containers {
					if c.Name == ovContainer {
						settingNamesContainer = true
					}
				}
			}
			if bad && settingNamesContainer {
				m.viol("C10", "C10.outdated-recognised", map[string]string{"sim": "true", "input": "setting"}, nil, d)
			}
		}
	}
}
