// Package kit holds builders shared by engines: templates over a marker alphabet, EDS/ERS/
// node/pod constructors, reconciler factories and small oracle helpers that depend only on
// API types.
package kit

import (
	"context"
	"fmt"
	"math"
	"runtime/debug"
	"strconv"
	"strings"
	"sync/atomic"
	"time"

	"github.com/go-logr/logr"
	corev1 "k8s.io/api/core/v1"
	metav1 "k8s.io/apimachinery/pkg/apis/meta/v1"
	"k8s.io/apimachinery/pkg/runtime"
	"k8s.io/apimachinery/pkg/types"
	"k8s.io/apimachinery/pkg/util/intstr"
	"k8s.io/client-go/tools/record"
	"k8s.io/client-go/util/flowcontrol"
	"k8s.io/utils/clock"
	"sigs.k8s.io/controller-runtime/pkg/client"
	"sigs.k8s.io/controller-runtime/pkg/controller/controllerutil"
	"sigs.k8s.io/controller-runtime/pkg/reconcile"

	v1 "github.com/DataDog/extendeddaemonset/api/v1alpha1"
	edsctl "github.com/DataDog/extendeddaemonset/controllers/extendeddaemonset"
	ersctl "github.com/DataDog/extendeddaemonset/controllers/extendeddaemonsetreplicaset"
	settingctl "github.com/DataDog/extendeddaemonset/controllers/extendeddaemonsetsetting"
	ptctl "github.com/DataDog/extendeddaemonset/controllers/podtemplate"
	"github.com/DataDog/extendeddaemonset/pkg/controller/utils/comparison"
	"github.com/DataDog/extendeddaemonset/pkg/verifclock"

	"vh/simapi"
)

// T0 is the origin of virtual time (whole second, far from minute boundaries' start).
var T0 = time.Date(2030, 1, 2, 3, 4, 30, 0, time.UTC)

// MarkerLabel identifies the template a pod/replica set was built from, independently of
// the MD5 hash machinery.
const MarkerLabel = "verif/tpl"

// Tpl builds the pod template with the given marker.
func Tpl(marker string) corev1.PodTemplateSpec {
	return corev1.PodTemplateSpec{
		ObjectMeta: metav1.ObjectMeta{Labels: map[string]string{"app": "agent", MarkerLabel: marker}},
		Spec:       corev1.PodSpec{Containers: []corev1.Container{{Name: "main", Image: "img:" + marker}}},
	}
}

// ExportedMeta makes the template's metadata look like it was copied from a live pod of another ExtendedDaemonSet
// (a legal manifest: everything the controller manages must be overwritten with its own values).
func ExportedMeta(t *corev1.PodTemplateSpec) {
	t.Namespace = "elsewhere"
	t.GenerateName = "other-zzzzz-"
	if t.Labels == nil {
		t.Labels = map[string]string{}
	}
	t.Labels[v1.ExtendedDaemonSetNameLabelKey] = "other"
	t.Labels[v1.ExtendedDaemonSetReplicaSetNameLabelKey] = "other-zzzzz"
	if t.Annotations == nil {
		t.Annotations = map[string]string{}
	}
	t.Annotations[v1.MD5ExtendedDaemonSetAnnotationKey] = "0123456789abcdef0123456789abcdef"
	t.Annotations["cluster-autoscaler.kubernetes.io/daemonset-pod"] = "false"
}

// MarkerOfTemplate reads the marker of a template.
// Two templates that differ only in the ORDER of a container's env list are different templates
// (expansion and duplicate resolution depend on it), so the order is part of the marker.
func MarkerOfTemplate(t *corev1.PodTemplateSpec) string {
	return t.Labels[MarkerLabel] + envOrder(t.Spec.Containers)
}

// MarkerOfPod reads the marker a pod was built from (oracle tplOf).
func MarkerOfPod(p *corev1.Pod) string { return p.Labels[MarkerLabel] + envOrder(p.Spec.Containers) }

func envOrder(cs []corev1.Container) string {
	out := ""
	for _, c := range cs {
		for _, e := range c.Env {
			out += "~" + e.Name + "=" + e.Value
		}
	}
	return out
}

// IntStr helpers.
func IS(i int) *intstr.IntOrString    { v := intstr.FromInt(i); return &v }
func PS(s string) *intstr.IntOrString { v := intstr.FromString(s); return &v }

// Resolve is the oracle's resolve(intOrPercent, n): integer, or ceil(p*n/100). ok=false when malformed.
func Resolve(v *intstr.IntOrString, n int) (int, bool) {
	if v == nil {
		return 0, false
	}
	if v.Type == intstr.Int {
		return int(v.IntVal), true
	}
	s := v.StrVal
	if !strings.HasSuffix(s, "%") {
		return 0, false
	}
	p, err := strconv.Atoi(strings.TrimSuffix(s, "%"))
	if err != nil {
		return 0, false
	}
	return int(math.Ceil(float64(p) * float64(n) / 100.0)), true
}

// NewEDS returns a defaulted EDS with the given template marker and optional canary.
func NewEDS(ns, name, marker string, canary *v1.ExtendedDaemonSetSpecStrategyCanary) *v1.ExtendedDaemonSet {
	e := &v1.ExtendedDaemonSet{ObjectMeta: metav1.ObjectMeta{Namespace: ns, Name: name, Annotations: map[string]string{}}}
	e.Spec.Template = Tpl(marker)
	e.Spec.Strategy.Canary = canary
	return v1.DefaultExtendedDaemonSet(e, v1.ExtendedDaemonSetSpecStrategyCanaryValidationModeAuto)
}

// NewRS builds the replica set the EDS controller would create for the template (hash
// computed by the repository's own function, owner reference to eds).
func NewRS(s *simapi.Store, eds *v1.ExtendedDaemonSet, name string, tpl corev1.PodTemplateSpec, created time.Time) *v1.ExtendedDaemonSetReplicaSet {
	rs := &v1.ExtendedDaemonSetReplicaSet{ObjectMeta: metav1.ObjectMeta{Name: name, Namespace: eds.Namespace,
		CreationTimestamp: metav1.NewTime(created), Labels: map[string]string{v1.ExtendedDaemonSetNameLabelKey: eds.Name}}}
	rs.Spec.Template = *tpl.DeepCopy()
	h, _ := comparison.GenerateMD5PodTemplateSpec(&rs.Spec.Template)
	rs.Annotations = map[string]string{v1.MD5ExtendedDaemonSetAnnotationKey: h}
	rs.Spec.TemplateGeneration = h
	_ = controllerutil.SetControllerReference(eds, rs, s.Scheme)
	return rs
}

// Node builds a node.
func Node(name string, lbls map[string]string, taints ...corev1.Taint) *corev1.Node {
	n := &corev1.Node{ObjectMeta: metav1.ObjectMeta{Name: name, Labels: lbls}}
	n.Spec.Taints = taints
	n.Status.Conditions = []corev1.NodeCondition{{Type: corev1.NodeReady, Status: corev1.ConditionTrue}}
	return n
}

// ReadyCond returns a Ready condition.
func ReadyCond(ready bool, since time.Time) corev1.PodCondition {
	st := corev1.ConditionFalse
	if ready {
		st = corev1.ConditionTrue
	}
	return corev1.PodCondition{Type: corev1.PodReady, Status: st, LastTransitionTime: metav1.NewTime(since)}
}

// IsReady is the oracle's available(pod): Ready condition true.
func IsReady(p *corev1.Pod) bool {
	for _, c := range p.Status.Conditions {
		if c.Type == corev1.PodReady {
			return c.Status == corev1.ConditionTrue
		}
	}
	return false
}

// NodeOfPod is the oracle's nodeOf(pod): spec.nodeName, else the metadata.name In [x]
// match-field present in every required node-affinity term, else "".
func NodeOfPod(p *corev1.Pod) string {
	if p.Spec.NodeName != "" {
		return p.Spec.NodeName
	}
	a := p.Spec.Affinity
	if a == nil || a.NodeAffinity == nil || a.NodeAffinity.RequiredDuringSchedulingIgnoredDuringExecution == nil {
		return ""
	}
	terms := a.NodeAffinity.RequiredDuringSchedulingIgnoredDuringExecution.NodeSelectorTerms
	if len(terms) == 0 {
		return ""
	}
	name := ""
	for _, t := range terms {
		found := ""
		for _, f := range t.MatchFields {
			if f.Key == "metadata.name" && f.Operator == corev1.NodeSelectorOpIn && len(f.Values) == 1 {
				found = f.Values[0]
			}
		}
		if found == "" || (name != "" && found != name) {
			return ""
		}
		name = found
	}
	return name
}

type nopRec struct{}

func (nopRec) Event(runtime.Object, string, string, string)                  {}
func (nopRec) Eventf(runtime.Object, string, string, string, ...interface{}) {}
func (nopRec) AnnotatedEventf(runtime.Object, map[string]string, string, string, string, ...interface{}) {
}

var _ record.EventRecorder = nopRec{}

// vclock adapts the virtual clock to clock.Clock (only Now/Since are used by Backoff).
type vclock struct{ clock.RealClock }

func (vclock) Now() time.Time                  { return verifclock.Now() }
func (vclock) Since(t time.Time) time.Duration { return verifclock.Now().Sub(t) }

// Controllers bundles the four real reconcilers over actor clients of one store.
type Controllers struct {
	S       *simapi.Store
	EDS     *edsctl.Reconciler
	ERS     *ersctl.Reconciler
	Setting *settingctl.Reconciler
	PodTpl  *ptctl.Reconciler
	CEDS    *simapi.Client
	CERS    *simapi.Client
	CSet    *simapi.Client
	CPT     *simapi.Client
	Opts    CtlOpts
	invN    int64
}

// CtlOpts are the controller-level options.
type CtlOpts struct {
	Affinity      bool
	DefaultManual bool
	Log           logr.Logger
}

// NewControllers builds fresh reconciler instances (empty in-memory state) over s.
func NewControllers(s *simapi.Store, o CtlOpts) *Controllers {
	c := &Controllers{S: s, Opts: o}
	c.Rebuild()
	return c
}

// Rebuild discards the reconciler instances and builds new ones (process restart).
func (c *Controllers) Rebuild() {
	log := c.Opts.Log
	if log.GetSink() == nil {
		log = logr.Discard()
	}
	if c.CEDS == nil {
		c.CEDS = c.S.NewClient("eds-controller", true)
		c.CERS = c.S.NewClient("ers-controller", true)
		c.CSet = c.S.NewClient("setting-controller", true)
		c.CPT = c.S.NewClient("podtemplate-controller", true)
	}
	mode := v1.ExtendedDaemonSetSpecStrategyCanaryValidationModeAuto
	if c.Opts.DefaultManual {
		mode = v1.ExtendedDaemonSetSpecStrategyCanaryValidationModeManual
	}
	c.EDS, _ = edsctl.NewReconciler(edsctl.ReconcilerOptions{DefaultValidationMode: mode}, c.CEDS, c.S.Scheme, log, nopRec{})
	c.ERS, _ = ersctl.NewReconciler(ersctl.ReconcilerOptions{IsNodeAffinitySupported: c.Opts.Affinity}, c.CERS, c.S.Scheme, log, nopRec{})
	bo := flowcontrol.NewBackOff(10*time.Second, 15*time.Minute)
	bo.Clock = vclock{}
	c.ERS.VerifSetFailedPodsBackOff(bo)
	c.Setting, _ = settingctl.NewReconciler(settingctl.ReconcilerOptions{}, c.CSet, c.S.Scheme, log, nopRec{})
	c.PodTpl, _ = ptctl.NewReconciler(ptctl.ReconcilerOptions{}, c.CPT, c.S.Scheme, log, nopRec{})
}

// Outcome of one reconcile.
type Outcome struct {
	Inv    *simapi.Invocation
	Result reconcile.Result
	Err    error
	Panic  string
	// PanicAt is the innermost repository function on the panicking stack (line numbers stripped).
	PanicAt string
}

// PanicSite extracts the innermost repository frame from a stack dump.
func PanicSite(stack string) string {
	lines := strings.Split(stack, "\n")
	seenPanic := false
	for _, l := range lines {
		if strings.HasPrefix(l, "panic(") {
			seenPanic = true
			continue
		}
		if seenPanic && strings.HasPrefix(l, "github.com/DataDog/extendeddaemonset/") && !strings.Contains(l, "verifclock") {
			fn := l
			if i := strings.LastIndex(fn, "("); i > 0 {
				fn = fn[:i]
			}
			return fn[strings.LastIndex(fn, "/")+1:]
		}
	}
	return "unknown"
}

// Reconcile runs one controller once on ns/name, recording the invocation; panics raised in
// the calling goroutine are recovered and reported.
func (c *Controllers) Reconcile(ctl, ns, name, mode string) (out Outcome) {
	id := int(atomic.AddInt64(&c.invN, 1))
	var cl *simapi.Client
	var rec reconcile.Reconciler
	switch ctl {
	case "eds":
		cl, rec = c.CEDS, c.EDS
	case "ers":
		cl, rec = c.CERS, c.ERS
	case "setting":
		cl, rec = c.CSet, c.Setting
	case "podtemplate":
		cl, rec = c.CPT, c.PodTpl
	default:
		panic("unknown controller " + ctl)
	}
	inv := cl.Begin(id, ctl, ns, name, mode)
	out.Inv = inv
	defer func() {
		if r := recover(); r != nil {
			out.Panic = fmt.Sprint(r)
			out.PanicAt = PanicSite(string(debug.Stack()))
			inv.Panic = out.Panic + " @ " + out.PanicAt
		}
		inv.Err = out.Err
		inv.ResultStr = fmt.Sprintf("%+v", out.Result)
		cl.End()
	}()
	out.Result, out.Err = rec.Reconcile(context.TODO(), reconcile.Request{NamespacedName: types.NamespacedName{Namespace: ns, Name: name}})
	return out
}

// GetEDS reads the stored EDS (nil when absent).
func GetEDS(s *simapi.Store, ns, name string) *v1.ExtendedDaemonSet {
	o := s.Peek(simapi.KindEDS, ns, name)
	if o == nil {
		return nil
	}
	return o.(*v1.ExtendedDaemonSet)
}

// GetRS reads a stored replica set.
func GetRS(s *simapi.Store, ns, name string) *v1.ExtendedDaemonSetReplicaSet {
	o := s.Peek(simapi.KindERS, ns, name)
	if o == nil {
		return nil
	}
	return o.(*v1.ExtendedDaemonSetReplicaSet)
}

// Pods lists stored pods.
func Pods(s *simapi.Store) []*corev1.Pod {
	var out []*corev1.Pod
	for _, o := range s.All(simapi.KindPod) {
		out = append(out, o.(*corev1.Pod))
	}
	return out
}

// Nodes lists stored nodes.
func Nodes(s *simapi.Store) []*corev1.Node {
	var out []*corev1.Node
	for _, o := range s.All(simapi.KindNode) {
		out = append(out, o.(*corev1.Node))
	}
	return out
}

// RSs lists stored replica sets.
func RSs(s *simapi.Store) []*v1.ExtendedDaemonSetReplicaSet {
	var out []*v1.ExtendedDaemonSetReplicaSet
	for _, o := range s.All(simapi.KindERS) {
		out = append(out, o.(*v1.ExtendedDaemonSetReplicaSet))
	}
	return out
}

// CondTrue reports whether an ERS condition is true.
func CondTrue(st *v1.ExtendedDaemonSetReplicaSetStatus, t v1.ExtendedDaemonSetReplicaSetConditionType) bool {
	for _, c := range st.Conditions {
		if c.Type == t {
			return c.Status == corev1.ConditionTrue
		}
	}
	return false
}

// Cond returns an ERS condition or nil.
func Cond(st *v1.ExtendedDaemonSetReplicaSetStatus, t v1.ExtendedDaemonSetReplicaSetConditionType) *v1.ExtendedDaemonSetReplicaSetCondition {
	for i := range st.Conditions {
		if st.Conditions[i].Type == t {
			return &st.Conditions[i]
		}
	}
	return nil
}

var _ client.Client = (*simapi.Client)(nil)
