package core

import (
	"bufio"
	"encoding/json"
	"fmt"
	"os"
	"os/exec"
	"path/filepath"
	"sort"
	"strconv"
	"strings"
	"sync"
	"time"
)

// Registry maps property id -> engines (constructed lazily).
type Registry map[string]func() []Engine

// KnownFinding is an entry of /verif/known_findings.json.
type KnownFinding struct {
	ID       string            `json:"id"`
	Property string            `json:"property"`
	Rule     string            `json:"rule"`
	Match    map[string]string `json:"match"`
	What     string            `json:"what"`
	Status   string            `json:"status"` // "open" or "fixed:<commit>"
}

// KnownFile is the file layout.
type KnownFile struct {
	Findings []KnownFinding `json:"findings"`
}

// LoadKnown reads the known-findings file (missing file = none).
func LoadKnown(path string) (*KnownFile, error) {
	kf := &KnownFile{}
	b, err := os.ReadFile(path)
	if err != nil {
		if os.IsNotExist(err) {
			return kf, nil
		}
		return nil, err
	}
	return kf, json.Unmarshal(b, kf)
}

// MatchOpen returns the open finding matching v, or nil. A match value may list
// alternatives separated by '|'; a value "*" requires the attribute to be present.
func (kf *KnownFile) MatchOpen(v *Violation) *KnownFinding {
	for i := range kf.Findings {
		f := &kf.Findings[i]
		if f.Status != "open" || f.Property != v.Property || f.Rule != v.Rule {
			continue
		}
		ok := true
		for k, want := range f.Match {
			got, present := v.Attrs[k]
			if !present {
				ok = false
				break
			}
			if want == "*" {
				continue
			}
			hit := false
			for _, alt := range strings.Split(want, "|") {
				if alt == got {
					hit = true
				}
			}
			if !hit {
				ok = false
				break
			}
		}
		if ok {
			return f
		}
	}
	return nil
}

// WorkerOpts configure one worker process.
type WorkerOpts struct {
	Property string
	Tier     string
	Seed     int64
	Shard    int
	Of       int
	From     int // skip cases with global ordinal < From (resume after a crash)
	Upto     int // when > 0, skip cases with ordinal >= Upto
	Spool    string
	Out      string
}

// ordinal enumerates (engine, idx) pairs in a fixed order; shard = ordinal % Of.
type caseRef struct {
	eng Engine
	idx int
}

func caseList(engs []Engine, tier string, seed int64) []caseRef {
	var out []caseRef
	for _, e := range engs {
		n := e.Cases(tier, seed)
		for i := 0; i < n; i++ {
			out = append(out, caseRef{e, i})
		}
	}
	return out
}

// RunWorker executes a shard and writes the merged result as JSON to opts.Out.
func RunWorker(reg Registry, o WorkerOpts) error {
	mk := reg[o.Property]
	if mk == nil {
		return fmt.Errorf("unknown property %s", o.Property)
	}
	engs := mk()
	cases := caseList(engs, o.Tier, o.Seed)
	runners := map[string]*Runner{}
	var spool *os.File
	if o.Spool != "" {
		var err error
		spool, err = os.OpenFile(o.Spool, os.O_CREATE|os.O_WRONLY|os.O_APPEND, 0o644)
		if err != nil {
			return err
		}
		defer spool.Close()
	}
	for ord, cr := range cases {
		if ord%o.Of != o.Shard || ord < o.From || (o.Upto > 0 && ord >= o.Upto) {
			continue
		}
		r := runners[cr.eng.Name()]
		if r == nil {
			r = NewRunner(o.Property, o.Tier, o.Seed, cr.eng)
			runners[cr.eng.Name()] = r
		}
		if spool != nil {
			fmt.Fprintf(spool, "%d %s %d\n", ord, cr.eng.Name(), cr.idx)
		}
		r.RunCase(cr.idx)
	}
	total := NewResult()
	names := make([]string, 0, len(runners))
	for n := range runners {
		names = append(names, n)
	}
	sort.Strings(names)
	for _, n := range names {
		Merge(total, runners[n].Finish())
	}
	b, err := json.Marshal(total)
	if err != nil {
		return err
	}
	return os.WriteFile(o.Out, b, 0o644)
}

// RunOpts configure the parent.
type RunOpts struct {
	Property         string
	Tier             string
	Seed             int64
	Workers          int
	Self             string // path of the binary to fork
	WorkDir          string // scratch for spool/out files
	Evidence         string
	ReplayDir        string
	Known            string
	Level            string // evidence level
	CrashIsViolation bool
	WorkerTimeout    time.Duration
	ExtraEvidence    map[string]any
	// RaceLog, when set, is the GORACE log_path prefix given to workers; report blocks found
	// there are turned into C17.data-race violations.
	RaceLog string
}

type crash struct {
	Ordinal int
	Engine  string
	Idx     int
	Tail    string
}

// RunParent forks workers, merges, applies known findings, writes evidence, prints the
// verdict lines and returns the exit code (0 held, 1 violated, 2 inconclusive).
func RunParent(reg Registry, o RunOpts) int {
	start := time.Now()
	mk := reg[o.Property]
	if mk == nil {
		fmt.Printf("INCONCLUSIVE: unknown property %s\n", o.Property)
		return 2
	}
	engs := mk()
	nCases := len(caseList(engs, o.Tier, o.Seed))
	if o.Workers <= 0 {
		o.Workers = 16
	}
	if o.Workers > nCases {
		o.Workers = nCases
	}
	if o.Workers < 1 {
		o.Workers = 1
	}
	total := NewResult()
	var mu sync.Mutex
	var crashes []crash
	var inconclusive []string
	var wg sync.WaitGroup
	for sh := 0; sh < o.Workers; sh++ {
		wg.Add(1)
		go func(sh int) {
			defer wg.Done()
			from := 0
			for attempt := 0; attempt < 6; attempt++ {
				spool := filepath.Join(o.WorkDir, fmt.Sprintf("spool-%d-%d", sh, attempt))
				out := filepath.Join(o.WorkDir, fmt.Sprintf("out-%d-%d.json", sh, attempt))
				logf := filepath.Join(o.WorkDir, fmt.Sprintf("log-%d-%d.txt", sh, attempt))
				lf, _ := os.Create(logf)
				args := []string{"worker", "--prop", o.Property, "--tier", o.Tier, "--seed", strconv.FormatInt(o.Seed, 10),
					"--shard", strconv.Itoa(sh), "--of", strconv.Itoa(o.Workers), "--from", strconv.Itoa(from), "--spool", spool, "--out", out}
				cmd := exec.Command(o.Self, args...)
				cmd.Stdout = lf
				cmd.Stderr = lf
				cmd.Env = append(os.Environ(), "GOTRACEBACK=all")
				if o.RaceLog != "" {
					cmd.Env = append(cmd.Env, "GORACE=halt_on_error=0 exitcode=0 log_path="+o.RaceLog)
				}
				done := make(chan error, 1)
				if err := cmd.Start(); err != nil {
					mu.Lock()
					inconclusive = append(inconclusive, "cannot start worker: "+err.Error())
					mu.Unlock()
					lf.Close()
					return
				}
				go func() { done <- cmd.Wait() }()
				var werr error
				timedOut := false
				select {
				case werr = <-done:
				case <-time.After(o.WorkerTimeout):
					timedOut = true
					_ = cmd.Process.Signal(os.Interrupt)
					time.Sleep(200 * time.Millisecond)
					_ = cmd.Process.Kill()
					werr = <-done
				}
				lf.Close()
				if timedOut {
					mu.Lock()
					inconclusive = append(inconclusive, fmt.Sprintf("worker %d: watchdog fired after %s (last case: %s)", sh, o.WorkerTimeout, lastLine(spool)))
					mu.Unlock()
					return
				}
				if werr == nil {
					b, err := os.ReadFile(out)
					var r Result
					if err == nil {
						err = json.Unmarshal(b, &r)
					}
					mu.Lock()
					if err != nil {
						inconclusive = append(inconclusive, fmt.Sprintf("worker %d: unreadable result: %v", sh, err))
					} else {
						Merge(total, &r)
					}
					mu.Unlock()
					return
				}
				// worker died: attribute to the spooled case and resume after it.
				// Results of the cases it completed before dying are lost; they are re-run.
				ll := lastLine(spool)
				var ord, idx int
				var eng string
				_, _ = fmt.Sscanf(ll, "%d %s %d", &ord, &eng, &idx)
				mu.Lock()
				crashes = append(crashes, crash{Ordinal: ord, Engine: eng, Idx: idx, Tail: tailFile(logf, 60)})
				mu.Unlock()
				// re-run the shard's earlier cases too (their results were lost), but skip the crasher
				// by resuming just after it: earlier cases of this attempt are re-executed only if
				// they came before 'from'. To keep results exact, restart the shard from 'from' and
				// mark the crasher as skipped through From = ord+1 after replaying [from, ord).
				if err := rerunRange(o, sh, from, ord, total, &mu); err != nil {
					mu.Lock()
					inconclusive = append(inconclusive, fmt.Sprintf("worker %d: rerun before crash failed: %v", sh, err))
					mu.Unlock()
					return
				}
				from = ord + 1
			}
			mu.Lock()
			inconclusive = append(inconclusive, fmt.Sprintf("worker %d: too many crashes", sh))
			mu.Unlock()
		}(sh)
	}
	wg.Wait()

	// crashes -> violations or inconclusive
	for _, c := range crashes {
		if o.CrashIsViolation {
			v := &Violation{Property: o.Property, Rule: o.Property + ".no-crash", Engine: c.Engine, Case: c.Idx, Seed: o.Seed, Tier: o.Tier,
				Attrs: map[string]string{"kind": "process-crash", "where": crashWhere(c.Tail)}, Detail: c.Tail}
			total.Violations = append(total.Violations, v)
			total.NViol[o.Property+"/"+v.Rule]++
		} else {
			inconclusive = append(inconclusive, fmt.Sprintf("worker crashed in engine %s case %d: %s", c.Engine, c.Idx, crashWhere(c.Tail)))
		}
	}

	raceStats := map[string]int{}
	if o.RaceLog != "" {
		reports, harnessOnly := ParseRaceLogs(o.RaceLog)
		raceStats["race_report_blocks"] = 0
		for sig, n := range reports {
			raceStats["race_report_blocks"] += n
			// a data race is a C17 matter whichever check's workload exposed it
			v := &Violation{Property: "C17", Rule: "C17.data-race", Engine: "race-detector", Seed: o.Seed, Tier: o.Tier,
				Attrs: map[string]string{"pair": sig}, Detail: map[string]any{"occurrences": n}}
			total.Violations = append(total.Violations, v)
			total.NViol["C17/"+v.Rule] += n
		}
		raceStats["distinct_race_pairs"] = len(reports)
		if harnessOnly > 0 {
			inconclusive = append(inconclusive, fmt.Sprintf("%d race report(s) entirely inside harness code", harnessOnly))
		}
	}

	known, err := LoadKnown(o.Known)
	if err != nil {
		inconclusive = append(inconclusive, "known findings unreadable: "+err.Error())
		known = &KnownFile{}
	}
	// classify
	var fresh []*Violation
	knownHits := map[string]int{}
	otherProps := map[string]int{}
	for _, v := range total.Violations {
		if v.Property != o.Property {
			otherProps[v.Property+"/"+v.Rule]++
			continue
		}
		if f := known.MatchOpen(v); f != nil {
			knownHits[f.ID]++
			continue
		}
		fresh = append(fresh, v)
	}
	// floors
	floors := map[string]int{}
	for _, e := range engs {
		for k, v := range e.Floors(o.Tier) {
			floors[k] = v
		}
	}
	var floorMiss []string
	for k, v := range floors {
		if total.Counters[k] < v {
			floorMiss = append(floorMiss, fmt.Sprintf("%s=%d<%d", k, total.Counters[k], v))
		}
	}
	sort.Strings(floorMiss)
	if len(floorMiss) > 0 {
		inconclusive = append(inconclusive, "antecedent floors not reached: "+strings.Join(floorMiss, ", "))
	}

	// output
	for id, n := range knownHits {
		for i := range known.Findings {
			if known.Findings[i].ID == id {
				fmt.Printf("KNOWN-FINDING: property=%s %s [%s, %d occurrence(s) this run]\n", o.Property, known.Findings[i].What, id, n)
			}
		}
	}
	exit := 0
	seenSig := map[string]bool{}
	_ = os.MkdirAll(o.ReplayDir, 0o755)
	for _, v := range fresh {
		sig := v.Sig()
		if seenSig[sig] {
			continue
		}
		seenSig[sig] = true
		path := filepath.Join(o.ReplayDir, fmt.Sprintf("%s-%d-%s-%d-%x.json", o.Property, o.Seed, v.Engine, v.Case, Hash64(sig)&0xffff))
		b, _ := json.MarshalIndent(v, "", " ")
		_ = os.WriteFile(path, b, 0o644)
		fmt.Printf("VIOLATION property=%s replay=%s\n", o.Property, path)
		fmt.Printf("  rule=%s attrs=%s\n", v.Rule, JSON(v.Attrs))
		exit = 1
		if len(seenSig) >= 25 {
			break
		}
	}
	if exit == 0 && len(inconclusive) > 0 {
		for _, s := range inconclusive {
			fmt.Printf("INCONCLUSIVE: %s\n", s)
		}
		exit = 2
	}

	// evidence
	dc := total.DistinctCounts()
	names := []string{}
	rules := []string{}
	for _, e := range engs {
		names = append(names, e.Name())
		rules = append(rules, e.Name()+": "+e.Rule())
	}
	samples := total.Samples
	if len(samples) == 0 {
		samples = []any{"(no sample recorded)"}
	}
	cov := map[string]any{
		"evaluations":         total.Cases,
		"distinct_nontrivial": dc["nontrivial"],
		"rule":                strings.Join(rules, " || "),
		"samples":             samples,
		"engines":             names,
		"counters":            total.Counters,
		"distinct_by_class":   dc,
		"violations_by_rule":  total.NViol,
		"other_rules":         otherProps,
		"known_findings_hit":  knownHits,
		"floors":              floors,
		"inconclusive":        inconclusive,
		"crashes":             len(crashes),
		"notes":               total.Notes,
		"exhaustive":          false,
	}
	if n, ok := total.Counters["evaluations"]; ok && n > 0 {
		cov["evaluations"] = n
	}
	if o.RaceLog != "" {
		cov["race_detector"] = raceStats
	}
	for k, v := range o.ExtraEvidence {
		cov[k] = v
	}
	ev := map[string]any{
		"property_id": o.Property,
		"tier":        o.Tier,
		"seed":        o.Seed,
		"level":       o.Level,
		"coverage":    cov,
		"assumptions": []string{
			"API-server double (simapi) and kubelet model are faithful for the behaviours the controllers observe",
			"reference oracles restate the property (DESIGN.md section 3)",
			"virtual time via clock pass on the build copy; sites rewritten: " + os.Getenv("VH_CLOCK_SITES"),
			"verdict = held on the executions observed, not a proof",
		},
		"wall_s":     time.Since(start).Seconds(),
		"violations": len(fresh),
		"verdict":    []string{"held-on-observed", "violated", "inconclusive"}[exit],
	}
	if o.Evidence != "" {
		_ = os.MkdirAll(filepath.Dir(o.Evidence), 0o755)
		b, _ := json.MarshalIndent(ev, "", " ")
		_ = os.WriteFile(o.Evidence, b, 0o644)
	}
	fmt.Printf("%s %s seed=%d: cases=%d distinct_nontrivial=%d violations=%d known=%d verdict=%s wall=%.1fs\n",
		o.Property, o.Tier, o.Seed, total.Cases, dc["nontrivial"], len(fresh), len(knownHits), ev["verdict"], time.Since(start).Seconds())
	return exit
}

// rerunRange re-executes the cases [from, upto) of a shard (those a crashed worker had
// completed, whose results were lost with it).
func rerunRange(o RunOpts, sh, from, upto int, total *Result, mu *sync.Mutex) error {
	if upto <= from {
		return nil
	}
	out := filepath.Join(o.WorkDir, fmt.Sprintf("out-%d-rr%d.json", sh, upto))
	args := []string{"worker", "--prop", o.Property, "--tier", o.Tier, "--seed", strconv.FormatInt(o.Seed, 10),
		"--shard", strconv.Itoa(sh), "--of", strconv.Itoa(o.Workers), "--from", strconv.Itoa(from), "--upto", strconv.Itoa(upto), "--out", out}
	cmd := exec.Command(o.Self, args...)
	if b, err := cmd.CombinedOutput(); err != nil {
		return fmt.Errorf("%v: %s", err, tailString(string(b), 5))
	}
	b, err := os.ReadFile(out)
	if err != nil {
		return err
	}
	var r Result
	if err := json.Unmarshal(b, &r); err != nil {
		return err
	}
	mu.Lock()
	Merge(total, &r)
	mu.Unlock()
	return nil
}

func lastLine(path string) string {
	f, err := os.Open(path)
	if err != nil {
		return ""
	}
	defer f.Close()
	sc := bufio.NewScanner(f)
	last := ""
	for sc.Scan() {
		if t := sc.Text(); t != "" {
			last = t
		}
	}
	return last
}

func tailFile(path string, n int) string {
	b, err := os.ReadFile(path)
	if err != nil {
		return ""
	}
	return tailString(string(b), n)
}

func tailString(s string, n int) string {
	lines := strings.Split(s, "\n")
	// keep the head of a Go crash (the reason) rather than the tail: find "panic:" / "fatal error:" / "DATA RACE"
	for i, l := range lines {
		if strings.HasPrefix(l, "panic:") || strings.HasPrefix(l, "fatal error:") || strings.Contains(l, "WARNING: DATA RACE") {
			end := i + n
			if end > len(lines) {
				end = len(lines)
			}
			return strings.Join(lines[i:end], "\n")
		}
	}
	if len(lines) > n {
		lines = lines[len(lines)-n:]
	}
	return strings.Join(lines, "\n")
}

// crashWhere extracts the first repository frame of a crash dump (line numbers stripped).
func crashWhere(tail string) string {
	reason := ""
	for _, l := range strings.Split(tail, "\n") {
		if reason == "" && (strings.HasPrefix(l, "panic:") || strings.HasPrefix(l, "fatal error:") || strings.Contains(l, "DATA RACE")) {
			reason = strings.TrimSpace(l)
			if len(reason) > 80 {
				reason = reason[:80]
			}
		}
		if strings.HasPrefix(l, "github.com/DataDog/extendeddaemonset/") && !strings.Contains(l, "verifclock") {
			fn := l
			if i := strings.Index(fn, "("); i > 0 {
				fn = fn[:i]
			}
			return reason + " @ " + fn[strings.LastIndex(fn, "/")+1:]
		}
	}
	return reason
}

// ParseRaceLogs reads the race detector's log files (prefix.*) and returns the de-duplicated
// reports that involve repository code, keyed by the sorted pair of innermost repository
// functions of the two accesses (line numbers stripped), and the number of reports that
// involve harness code only.
func ParseRaceLogs(prefix string) (map[string]int, int) {
	out := map[string]int{}
	harnessOnly := 0
	files, _ := filepath.Glob(prefix + ".*")
	for _, f := range files {
		b, err := os.ReadFile(f)
		if err != nil {
			continue
		}
		for _, block := range strings.Split(string(b), "==================") {
			if !strings.Contains(block, "WARNING: DATA RACE") {
				continue
			}
			// the two access stacks come first; goroutine creation stacks follow
			parts := strings.Split(block, "\n\n")
			var tops []string
			for _, p := range parts {
				if len(tops) == 2 {
					break
				}
				if !(strings.Contains(p, " by goroutine ") || strings.Contains(p, " by main goroutine")) {
					continue
				}
				top := ""
				for _, l := range strings.Split(p, "\n") {
					l = strings.TrimSpace(l)
					if strings.HasPrefix(l, "github.com/DataDog/extendeddaemonset/") && !strings.Contains(l, "verifclock") {
						fn := l
						if i := strings.LastIndex(fn, "("); i > 0 {
							fn = fn[:i]
						}
						top = fn[strings.LastIndex(fn, "/")+1:]
						break
					}
				}
				tops = append(tops, top)
			}
			sort.Strings(tops)
			sig := strings.Join(tops, " <-> ")
			if strings.Trim(sig, " <->") == "" {
				harnessOnly++
				continue
			}
			out[sig]++
		}
	}
	return out, harnessOnly
}
