// Package core holds the case driver shared by all engines: per-case PRNG, antecedent
// counters, distinct-state accounting, violation records, worker/parent protocol, evidence
// and known-findings handling (DESIGN.md 2.6, 2.8, 2.9).
package core

import (
	"encoding/json"
	"fmt"
	"hash/fnv"
	"math/rand"
	"sort"
	"strings"
)

// Engine decides one property (or one part of it) over an indexed, seed-determined case list.
type Engine interface {
	// Name of the engine (for evidence).
	Name() string
	// Cases returns the number of cases for the tier. The list is a pure function of
	// (tier, seed): never of elapsed time.
	Cases(tier string, seed int64) int
	// Run executes case idx and reports through ctx.
	Run(ctx *Ctx, idx int)
	// Floors returns the minimal antecedent counts (per whole run) below which the verdict
	// is "inconclusive" rather than "held".
	Floors(tier string) map[string]int
	// Rule describes how cases are generated and what makes one distinct/non-trivial.
	Rule() string
}

// Violation is one rule firing.
type Violation struct {
	Property string            `json:"property"`
	Rule     string            `json:"rule"`
	Attrs    map[string]string `json:"attrs"`
	Detail   any               `json:"detail,omitempty"`
	Engine   string            `json:"engine"`
	Case     int               `json:"case"`
	Seed     int64             `json:"seed"`
	Tier     string            `json:"tier"`
}

// Sig is a stable signature used for de-duplication.
func (v *Violation) Sig() string {
	keys := make([]string, 0, len(v.Attrs))
	for k := range v.Attrs {
		keys = append(keys, k)
	}
	sort.Strings(keys)
	var sb strings.Builder
	sb.WriteString(v.Rule)
	for _, k := range keys {
		fmt.Fprintf(&sb, "|%s=%s", k, v.Attrs[k])
	}
	return sb.String()
}

// Result is what one worker (or a merge of workers) observed.
type Result struct {
	Cases      int                 `json:"cases"`
	Counters   map[string]int      `json:"counters"`
	Distinct   map[string][]uint64 `json:"distinct"` // per class: hashes of distinct abstract cases
	Violations []*Violation        `json:"violations"`
	NViol      map[string]int      `json:"nviol"` // per rule, uncapped
	Samples    []any               `json:"samples"`
	Notes      []string            `json:"notes"`
}

// NewResult returns an empty result.
func NewResult() *Result {
	return &Result{Counters: map[string]int{}, Distinct: map[string][]uint64{}, NViol: map[string]int{}}
}

// Ctx is handed to an engine for one case.
type Ctx struct {
	Property string
	Tier     string
	Seed     int64
	Case     int
	Rand     *rand.Rand
	Engine   string
	res      *Result
	distinct map[string]map[uint64]struct{}
	violSigs map[string]int
	// MaxViolPerSig caps stored violation records per signature (counts stay exact).
	MaxViolPerSig int
	MaxSamples    int
}

// Hash64 hashes a string (FNV-1a).
func Hash64(s string) uint64 {
	h := fnv.New64a()
	_, _ = h.Write([]byte(s))
	return h.Sum64()
}

// CaseSeed derives the PRNG seed of a case from (seed, property, engine, idx).
func CaseSeed(seed int64, prop, engine string, idx int) int64 {
	return int64(Hash64(fmt.Sprintf("%d/%s/%s/%d", seed, prop, engine, idx)) & 0x7fffffffffffffff)
}

// Count increments an antecedent / observation counter.
func (c *Ctx) Count(name string) { c.res.Counters[name]++ }

// Add adds n to a counter.
func (c *Ctx) Add(name string, n int) { c.res.Counters[name] += n }

// Distinct records an abstract case/state key under a class; returns true if new (in this worker).
func (c *Ctx) Distinct(class, key string) bool {
	m := c.distinct[class]
	if m == nil {
		m = map[uint64]struct{}{}
		c.distinct[class] = m
	}
	h := Hash64(key)
	if _, ok := m[h]; ok {
		return false
	}
	m[h] = struct{}{}
	return true
}

// Violation records a rule firing for the property this run decides.
func (c *Ctx) Violation(prop, rule string, attrs map[string]string, detail any) {
	v := &Violation{Property: prop, Rule: rule, Attrs: attrs, Detail: detail, Engine: c.Engine, Case: c.Case, Seed: c.Seed, Tier: c.Tier}
	c.res.NViol[prop+"/"+rule]++
	sig := prop + "/" + v.Sig()
	c.violSigs[sig]++
	if c.violSigs[sig] <= c.MaxViolPerSig {
		c.res.Violations = append(c.res.Violations, v)
	}
}

// Sample stores an example case (bounded).
func (c *Ctx) Sample(s any) {
	if len(c.res.Samples) < c.MaxSamples {
		c.res.Samples = append(c.res.Samples, s)
	}
}

// Note stores a free-text note (bounded).
func (c *Ctx) Note(s string) {
	if len(c.res.Notes) < 20 {
		c.res.Notes = append(c.res.Notes, s)
	}
}

// Runner runs a shard of an engine's cases inside one process.
type Runner struct {
	Property string
	Tier     string
	Seed     int64
	Eng      Engine
	Res      *Result
	distinct map[string]map[uint64]struct{}
	violSigs map[string]int
	// Spool, when set, is called with the case index before each case starts.
	Spool func(idx int)
}

// NewRunner prepares a runner.
func NewRunner(prop, tier string, seed int64, e Engine) *Runner {
	return &Runner{Property: prop, Tier: tier, Seed: seed, Eng: e, Res: NewResult(),
		distinct: map[string]map[uint64]struct{}{}, violSigs: map[string]int{}}
}

// RunCase runs one case.
func (r *Runner) RunCase(idx int) {
	if r.Spool != nil {
		r.Spool(idx)
	}
	ctx := &Ctx{Property: r.Property, Tier: r.Tier, Seed: r.Seed, Case: idx, Engine: r.Eng.Name(),
		Rand: rand.New(rand.NewSource(CaseSeed(r.Seed, r.Property, r.Eng.Name(), idx))),
		res:  r.Res, distinct: r.distinct, violSigs: r.violSigs, MaxViolPerSig: 3, MaxSamples: 6}
	r.Eng.Run(ctx, idx)
	r.Res.Cases++
}

// Finish moves the distinct sets into the result.
func (r *Runner) Finish() *Result {
	for class, m := range r.distinct {
		hs := make([]uint64, 0, len(m))
		for h := range m {
			hs = append(hs, h)
		}
		sort.Slice(hs, func(i, j int) bool { return hs[i] < hs[j] })
		r.Res.Distinct[class] = hs
	}
	return r.Res
}

// Merge folds b into a.
func Merge(a, b *Result) {
	a.Cases += b.Cases
	for k, v := range b.Counters {
		a.Counters[k] += v
	}
	for k, v := range b.NViol {
		a.NViol[k] += v
	}
	for class, hs := range b.Distinct {
		a.Distinct[class] = append(a.Distinct[class], hs...)
	}
	a.Violations = append(a.Violations, b.Violations...)
	for _, s := range b.Samples {
		if len(a.Samples) < 8 {
			a.Samples = append(a.Samples, s)
		}
	}
	for _, n := range b.Notes {
		if len(a.Notes) < 40 {
			a.Notes = append(a.Notes, n)
		}
	}
}

// DistinctCounts de-duplicates merged hash lists and returns the count per class.
func (r *Result) DistinctCounts() map[string]int {
	out := map[string]int{}
	for class, hs := range r.Distinct {
		m := map[uint64]struct{}{}
		for _, h := range hs {
			m[h] = struct{}{}
		}
		out[class] = len(m)
	}
	return out
}

// JSON helper.
func JSON(v any) string {
	b, _ := json.Marshal(v)
	return string(b)
}

// Violations returns what the context has recorded so far (used by the fuzz target).
func (c *Ctx) Violations() []*Violation { return c.res.Violations }

// Counter returns one counter of the context.
func (c *Ctx) Counter(name string) int { return c.res.Counters[name] }

// ScratchCtx returns a context whose observations are discarded (baseline recording runs).
func ScratchCtx(prop, tier string, seed int64) *Ctx {
	return &Ctx{Property: prop, Tier: tier, Seed: seed, Engine: "scratch", Rand: rand.New(rand.NewSource(CaseSeed(seed, prop, "scratch", 0))),
		res: NewResult(), distinct: map[string]map[uint64]struct{}{}, violSigs: map[string]int{}, MaxViolPerSig: 2, MaxSamples: 2}
}
