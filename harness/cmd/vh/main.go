// vh is the verification harness binary: parent driver, worker and replay.
package main

import (
	"encoding/json"
	"flag"
	"fmt"
	"os"
	"time"

	"vh/core"
)

func main() {
	if len(os.Args) < 2 {
		fmt.Println("usage: vh run|worker|replay|list ...")
		os.Exit(2)
	}
	reg := registry()
	switch os.Args[1] {
	case "list":
		for p := range reg {
			fmt.Println(p)
		}
	case "worker":
		fs := flag.NewFlagSet("worker", flag.ExitOnError)
		var o core.WorkerOpts
		fs.StringVar(&o.Property, "prop", "", "")
		fs.StringVar(&o.Tier, "tier", "quick", "")
		fs.Int64Var(&o.Seed, "seed", 1, "")
		fs.IntVar(&o.Shard, "shard", 0, "")
		fs.IntVar(&o.Of, "of", 1, "")
		fs.IntVar(&o.From, "from", 0, "")
		fs.IntVar(&o.Upto, "upto", 0, "")
		fs.StringVar(&o.Spool, "spool", "", "")
		fs.StringVar(&o.Out, "out", "", "")
		_ = fs.Parse(os.Args[2:])
		if err := core.RunWorker(reg, o); err != nil {
			fmt.Fprintln(os.Stderr, "worker error:", err)
			os.Exit(3)
		}
	case "run":
		fs := flag.NewFlagSet("run", flag.ExitOnError)
		var o core.RunOpts
		var timeout time.Duration
		fs.StringVar(&o.Property, "prop", "", "")
		fs.StringVar(&o.Tier, "tier", "quick", "")
		fs.Int64Var(&o.Seed, "seed", 1, "")
		fs.IntVar(&o.Workers, "workers", 16, "")
		fs.StringVar(&o.WorkDir, "workdir", "", "")
		fs.StringVar(&o.Evidence, "evidence", "", "")
		fs.StringVar(&o.ReplayDir, "replays", "/verif/replays", "")
		fs.StringVar(&o.Known, "known", "/verif/known_findings.json", "")
		fs.DurationVar(&timeout, "worker-timeout", 20*time.Minute, "")
		_ = fs.Parse(os.Args[2:])
		o.Self, _ = os.Executable()
		o.WorkerTimeout = timeout
		o.Level = levelOf(o.Property)
		o.CrashIsViolation = crashIsViolation(o.Property)
		if rb := os.Getenv("VH_RACE_BIN"); rb != "" && usesRaceBuild(o.Property, o.Tier) {
			if _, err := os.Stat(rb); err != nil {
				fmt.Println("INCONCLUSIVE: race build missing:", err)
				os.Exit(2)
			}
			o.Self = rb
			o.RaceLog = "RACELOG"
		}
		tmpWork := ""
		if o.WorkDir == "" {
			d, err := os.MkdirTemp("", "vhrun")
			if err != nil {
				fmt.Println("INCONCLUSIVE:", err)
				os.Exit(2)
			}
			tmpWork = d
			o.WorkDir = d
		}
		if o.RaceLog == "RACELOG" {
			o.RaceLog = o.WorkDir + "/race"
		}
		rc := core.RunParent(reg, o)
		if tmpWork != "" {
			os.RemoveAll(tmpWork)
		}
		os.Exit(rc)
	case "replay":
		if len(os.Args) < 3 {
			fmt.Println("usage: vh replay <file>")
			os.Exit(2)
		}
		b, err := os.ReadFile(os.Args[2])
		if err != nil {
			fmt.Println(err)
			os.Exit(2)
		}
		var v core.Violation
		if err := json.Unmarshal(b, &v); err != nil {
			fmt.Println(err)
			os.Exit(2)
		}
		os.Exit(replay(reg, &v))
	default:
		fmt.Println("unknown command", os.Args[1])
		os.Exit(2)
	}
}

// replay re-runs the recorded case up to 50 times (Go map order and goroutine order are
// the only non-replayable choices) and reports how often the same rule fired again.
func replay(reg core.Registry, v *core.Violation) int {
	mk := reg[v.Property]
	if mk == nil {
		fmt.Println("unknown property", v.Property)
		return 2
	}
	hits, attempts := 0, 50
	for _, e := range mk() {
		if e.Name() != v.Engine {
			continue
		}
		for a := 0; a < attempts; a++ {
			r := core.NewRunner(v.Property, v.Tier, v.Seed, e)
			r.RunCase(v.Case)
			for _, w := range r.Finish().Violations {
				if w.Property == v.Property && w.Rule == v.Rule {
					hits++
					if hits == 1 {
						fmt.Printf("reproduced: rule=%s attrs=%s\n", w.Rule, core.JSON(w.Attrs))
						if f := os.Getenv("VH_DUMP"); f != "" {
							b, _ := json.MarshalIndent(w, "", " ")
							_ = os.WriteFile(f, b, 0o644)
						}
					}
					break
				}
			}
		}
	}
	fmt.Printf("replay: %d/%d attempts reproduced %s\n", hits, attempts, v.Rule)
	if hits > 0 {
		fmt.Printf("VIOLATION property=%s replay=%s\n", v.Property, os.Args[2])
		return 1
	}
	return 0
}
