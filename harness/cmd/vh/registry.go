package main

import (
	"vh/core"
	"vh/fn"
	"vh/sim"
)

func one(e ...core.Engine) func() []core.Engine { return func() []core.Engine { return e } }

var (
	profC01 = sim.Profile{Name: "c01", Steps: 160, CanaryProb: 0.5, Hostile: 3, Churn: 3, Edits: 1.5, Holds: 0.3, Commands: 0.3, DupPods: 4, Affinity: -1, MaxNodes: 8, Converge: false}
	profC02 = sim.Profile{Name: "c02", Steps: 80, CanaryProb: 0.5, Hostile: 1.5, Churn: 1.5, Edits: 1.5, Holds: 0.7, Commands: 0.5, DupPods: 0.5, Affinity: -1, MaxNodes: 6, Converge: true, OldDS: 0.15}
)

func registry() core.Registry {
	return core.Registry{
		"C01": one(&sim.Sim{Prop: "C01", P: profC01, NQuick: 300, NThor: 6000, FloorsQ: map[string]int{}}),
		"C02": one(&sim.Sim{Prop: "C02", P: profC02, NQuick: 200, NThor: 4000, FloorsQ: map[string]int{}}),
		"C03": one(&fn.C03{}),
		"C05": one(&fn.C05{}),
		"C06": one(&fn.C06{}),
		"C09": one(&fn.C09{}),
		"C10": one(&fn.C10{}),
		"C14": one(&fn.C14{}),
		"C15": one(&fn.C15{}),
		"C18": one(&fn.C18{}),
		"C20": one(&fn.C20{}),
	}
}

func levelOf(prop string) string {
	if prop == "C11" {
		return "fault_enumeration"
	}
	return "exploration"
}

func crashIsViolation(prop string) bool {
	return prop == "C16" || prop == "C17" || prop == "C11"
}
