package main

import (
	"vh/core"
	"vh/fn"
)

func registry() core.Registry {
	return core.Registry{
		"C03": func() []core.Engine { return []core.Engine{&fn.C03{}} },
	}
}

func levelOf(prop string) string {
	if prop == "C11" {
		return "fault_enumeration"
	}
	return "exploration"
}

func crashIsViolation(prop string) bool {
	return prop == "C16" || prop == "C17" || prop == "C11"
}
