package main

import (
	"vh/core"
	"vh/fn"
)

func one(e core.Engine) func() []core.Engine { return func() []core.Engine { return []core.Engine{e} } }

func registry() core.Registry {
	return core.Registry{
		"C03": one(&fn.C03{}),
		"C05": one(&fn.C05{}),
		"C06": one(&fn.C06{}),
		"C10": one(&fn.C10{}),
		"C14": one(&fn.C14{}),
		"C15": one(&fn.C15{}),
	}
}

func levelOf(prop string) string {
	if prop == "C11" {
		return "fault_enumeration"
	}
	return "exploration"
}

func crashIsViolation(prop string) bool {
	return prop == "C16" || prop == "C17" || prop == "C11"
}
