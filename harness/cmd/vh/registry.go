package main

import (
	"vh/core"
	"vh/fn"
	"vh/sim"
)

func one(e ...core.Engine) func() []core.Engine { return func() []core.Engine { return e } }

var (
	profC01 = sim.Profile{Name: "c01", Steps: 160, CanaryProb: 0.5, Hostile: 3, Churn: 3, Edits: 1.5, Holds: 0.3, Commands: 0.3, DupPods: 4, Affinity: -1, MaxNodes: 8, Converge: false}
	profC04 = sim.Profile{Name: "c04", CanarySteady: true, Converge: true, Steps: 140, CanaryProb: 1, Hostile: 1, Churn: 2, Edits: 2.5, Holds: 0.8, Commands: 1.5, DupPods: 0.5, Affinity: -1, MaxNodes: 8}
	profC07 = sim.Profile{Name: "c07", Widen: 0.3, EDSFaults: 0.2, Steps: 110, CanaryProb: 1, Hostile: 3, Churn: 0.7, Edits: 1.5, Holds: 0.5, Commands: 2, DupPods: 0.2, Affinity: -1, MaxNodes: 6, Converge: true, Retention: true}
	profC08 = sim.Profile{Name: "c08", Overrides: 1.5, Steps: 120, CanaryProb: 0.5, Hostile: 1, Churn: 3, Edits: 1.5, Holds: 4, Commands: 3, DupPods: 0.3, Affinity: -1, MaxNodes: 7, Converge: true}
	profC12 = sim.Profile{Name: "c12", Steps: 160, CanaryProb: 0.5, Hostile: 1, Churn: 1, Edits: 2, Holds: 0.5, Commands: 0.7, DupPods: 1, Affinity: -1, MaxNodes: 5, MultiEDS: true, OldDS: 0.3, Overrides: 1.5}
	profC13 = sim.Profile{Name: "c13", ReadFaults: 0.05, RSFaults: 0.15, EnvOrder: 0.5, Steps: 140, CanaryProb: 0.5, Hostile: 1, Churn: 0.7, Edits: 5, Holds: 0.5, Commands: 0.7, DupPods: 0.3, Affinity: -1, MaxNodes: 5, Converge: true}
	profC14 = sim.Profile{Name: "c14", Steps: 100, CanaryProb: 0.5, Hostile: 2, Churn: 1.5, Edits: 1.5, Holds: 1, Commands: 1, DupPods: 1, Affinity: -1, MaxNodes: 6, Converge: true}
	profC09 = sim.Profile{Name: "c09", Steps: 140, CanaryProb: 0.3, Hostile: 1, Churn: 2, Edits: 2, Holds: 0.3, Commands: 0.3, DupPods: 1.5, Affinity: -1, MaxNodes: 8, PodFaults: 0.25, Burst: 4}
	profC03 = sim.Profile{Name: "c03", Overrides: 1, PodFaults: 0.1, OldDS: 0.3, Steps: 150, CanaryProb: 0.4, Hostile: 2, Churn: 2.5, Edits: 3.5, Holds: 0.2, Commands: 0.3, DupPods: 0.5, Affinity: -1, MaxNodes: 10}
	profC05 = sim.Profile{Name: "c05", Steps: 140, CanaryProb: 1, Hostile: 2.5, Churn: 1, Edits: 2.5, Holds: 1, Commands: 1.5, DupPods: 0.3, Affinity: -1, MaxNodes: 6}
	profC15 = sim.Profile{Name: "c15", Steps: 120, CanaryProb: 1, Hostile: 1, Churn: 4, Edits: 2.5, Holds: 0.3, Commands: 0.5, DupPods: 0.3, Affinity: -1, MaxNodes: 9}
	profC10 = sim.Profile{Name: "c10", ReadFaults: 0.05, Overrides: 4, Steps: 150, CanaryProb: 0.4, Hostile: 1, Churn: 2, Edits: 1.5, Holds: 0.3, Commands: 0.3, DupPods: 0.5, Affinity: -1, MaxNodes: 8, Converge: true}
	profC19 = sim.Profile{Name: "c19", EDSFaults: 0.15, Steps: 140, CanaryProb: 1, Hostile: 1.5, Churn: 0.7, Edits: 1.5, Holds: 0.8, Commands: 5, DupPods: 0.2, Affinity: -1, MaxNodes: 5, Converge: true}
	profC16 = sim.Profile{Name: "c16", Steps: 130, CanaryProb: 0.8, Hostile: 2, Churn: 1.5, Edits: 6, Holds: 0.8, Commands: 1, DupPods: 0.5, Affinity: -1, MaxNodes: 5, Overrides: 1}
	profC02 = sim.Profile{Name: "c02", Steps: 80, CanaryProb: 0.5, Hostile: 1.5, Churn: 1.5, Edits: 1.5, Holds: 0.7, Commands: 0.5, DupPods: 0.5, Affinity: -1, MaxNodes: 6, Converge: true, OldDS: 0.15}
)

func nested(p sim.Profile, prob float64) sim.Profile {
	p.Name += "-n"
	p.Nested = prob
	return p
}

// big: the same kind of history on a cluster of 25-104 nodes, fewer steps.
func big(p sim.Profile) sim.Profile {
	p.Name += "-big"
	p.Big = true
	p.Steps = p.Steps / 2
	return p
}

func eventDriven(p sim.Profile) sim.Profile {
	p.Name += "-e"
	p.EventDriven = true
	return p
}

func registry() core.Registry {
	return core.Registry{
		"C01": one(&fn.C01{}, &sim.Sim{Prop: "C01", P: profC01, NQuick: 800, NThor: 8000, FloorsQ: map[string]int{"C01.creates-judged": 4000, "C01.dup-resolutions-judged": 2000, "C01.ineligible-cleanups-judged": 800, "C01.unknown-pods-in-view": 2000}}, &sim.Sim{Prop: "C01", P: nested(profC01, 0.12), NQuick: 400, NThor: 4000, FloorsQ: map[string]int{"sim.nested-yields": 5000}}, &sim.Sim{Prop: "C01", P: big(profC01), NQuick: 40, NThor: 400, FloorsQ: map[string]int{}}),
		"C02": one(&sim.Sim{Prop: "C02", P: profC02, NQuick: 500, NThor: 6000, FloorsQ: map[string]int{"C02.convergence-phases-with-work": 300, "C02.fixpoints-reached": 400}}, &sim.Sim{Prop: "C02", P: eventDriven(profC02), NQuick: 300, NThor: 3000, FloorsQ: map[string]int{"C02.e-fixpoints-reached": 200}}, &sim.Sim{Prop: "C02", P: big(profC02), NQuick: 40, NThor: 400, FloorsQ: map[string]int{}}, &sim.Sim{Prop: "C02", P: profC10, NQuick: 250, NThor: 2500, FloorsQ: map[string]int{}}),
		"C03": one(&fn.C03{}, &sim.Sim{Prop: "C03", P: profC03, NQuick: 400, NThor: 6000, FloorsQ: map[string]int{"C03.sim-syncs-deleting-for-update": 250}}, &sim.Sim{Prop: "C03", P: nested(profC03, 0.12), NQuick: 200, NThor: 3000, FloorsQ: map[string]int{}}, &sim.Sim{Prop: "C03", P: big(profC03), NQuick: 40, NThor: 400, FloorsQ: map[string]int{}}),
		"C04": one(&sim.Sim{Prop: "C04", P: profC04, NQuick: 600, NThor: 6000, FloorsQ: map[string]int{"C04.canary-role-creates": 400, "C04.label-on-judged": 250, "C04.canary-list-growth-judged": 800, "C04.canary-steady-states-judged": 30}}, &sim.Sim{Prop: "C04", P: nested(profC04, 0.12), NQuick: 400, NThor: 4000, FloorsQ: map[string]int{"sim.nested-yields": 5000}}, &sim.Sim{Prop: "C04", P: big(profC04), NQuick: 40, NThor: 400, FloorsQ: map[string]int{}}),
		"C07": one(&sim.Sim{Prop: "C07", P: profC07, NQuick: 500, NThor: 6000, FloorsQ: map[string]int{"C07.rollbacks-judged": 30, "C07.failed-rs-deletes-judged": 40, "C07.retention-phases": 10}}, &sim.Sim{Prop: "C07", P: nested(profC07, 0.12), NQuick: 250, NThor: 3000, FloorsQ: map[string]int{}}, &sim.Sim{Prop: "C07", P: nested(profC19, 0.15), NQuick: 300, NThor: 4000, FloorsQ: map[string]int{}}, &fn.ManyRS{Prop: "C07"}, &sim.C07Script{}),
		"C08": one(&sim.C08Script{}, &sim.Sim{Prop: "C08", P: profC08, NQuick: 600, NThor: 6000, FloorsQ: map[string]int{"C08.paused-syncs": 1000, "C08.frozen-syncs": 1000}}, &sim.Sim{Prop: "C08", P: nested(profC08, 0.12), NQuick: 400, NThor: 4000, FloorsQ: map[string]int{"sim.nested-yields": 4000}}),
		"C11": one(&sim.C11{}, &sim.Sim{Prop: "C11", P: nested(profC19, 0.15), NQuick: 300, NThor: 4000, FloorsQ: map[string]int{}}, &sim.Sim{Prop: "C11", P: nested(profC05, 0.15), NQuick: 300, NThor: 4000, FloorsQ: map[string]int{}}),
		"C12": one(&sim.Sim{Prop: "C12", P: profC12, NQuick: 500, NThor: 5000, FloorsQ: map[string]int{"C12.writes-judged": 20000}}, &sim.Sim{Prop: "C12", P: nested(profC12, 0.12), NQuick: 250, NThor: 2500, FloorsQ: map[string]int{}}, &sim.Sim{Prop: "C12", P: big(profC12), NQuick: 40, NThor: 400, FloorsQ: map[string]int{}}),
		"C13": one(&sim.Sim{Prop: "C13", P: profC13, NQuick: 500, NThor: 5000, FloorsQ: map[string]int{"C13.rs-creates-judged": 2000, "C13.rs-deletes-judged": 1500, "C13.podtemplate-judged": 5000}}, &sim.Sim{Prop: "C13", P: nested(profC13, 0.12), NQuick: 250, NThor: 2500, FloorsQ: map[string]int{}}, &sim.C13Conc{}, &fn.ManyRS{Prop: "C13"}, &sim.Sim{Prop: "C13", P: profC12, NQuick: 200, NThor: 2000, FloorsQ: map[string]int{}}),
		"C05": one(&fn.C05{}, &sim.Sim{Prop: "C05", P: profC05, NQuick: 500, NThor: 6000, FloorsQ: map[string]int{"C05.sim-promotions-judged": 200, "C05.sim-reconciles-with-canary-candidate": 800}}, &sim.Sim{Prop: "C05", P: nested(profC05, 0.12), NQuick: 250, NThor: 3000, FloorsQ: map[string]int{}}, &fn.ManyRS{Prop: "C05"}, &fn.C05Restarts{}, &sim.C05Script{}),
		"C06": one(&fn.C06{}, &sim.Sim{Prop: "C06", P: profC07, NQuick: 300, NThor: 4000, FloorsQ: map[string]int{"C06.sim-syncs-of-failed-canary": 12}}, &sim.Sim{Prop: "C06", P: nested(profC07, 0.15), NQuick: 300, NThor: 4000, FloorsQ: map[string]int{}}, &sim.Sim{Prop: "C06", P: nested(profC19, 0.15), NQuick: 200, NThor: 3000, FloorsQ: map[string]int{}}),
		"C09": one(&fn.C09{}, &sim.Sim{Prop: "C09", P: profC09, NQuick: 600, NThor: 6000, FloorsQ: map[string]int{"C09.acting-syncs": 2000, "C09.sim-creating-syncs-with-binding-ramp": 1500}}, &sim.Sim{Prop: "C09", P: nested(profC09, 0.12), NQuick: 300, NThor: 3000, FloorsQ: map[string]int{}}, &sim.Sim{Prop: "C09", P: big(profC09), NQuick: 40, NThor: 400, FloorsQ: map[string]int{}}, &sim.Sim{Prop: "C09", P: profC05, NQuick: 250, NThor: 2500, FloorsQ: map[string]int{}}),
		"C10": one(&fn.C10{}, &sim.Sim{Prop: "C10", P: profC10, NQuick: 400, NThor: 5000, FloorsQ: map[string]int{"C10.sim-creates-with-annotation": 600, "C10.sim-creates-with-setting": 300, "C10.sim-update-deletes-of-own-pods-judged": 100, "C10.sim-pods-judged-at-fixpoint": 500}}, &sim.Sim{Prop: "C10", P: nested(profC10, 0.12), NQuick: 200, NThor: 2500, FloorsQ: map[string]int{}}),
		"C14": one(&fn.C14{}, &sim.Sim{Prop: "C14", P: profC14, NQuick: 400, NThor: 4000, FloorsQ: map[string]int{"C14.eds-status-writes-judged": 1500, "C14.rs-status-writes-judged": 2500, "C14.fixpoints-judged": 100}}, &sim.Sim{Prop: "C14", P: nested(profC14, 0.12), NQuick: 200, NThor: 2000, FloorsQ: map[string]int{}}, &sim.Sim{Prop: "C14", P: big(profC14), NQuick: 40, NThor: 400, FloorsQ: map[string]int{}}, &sim.C14Scale{}, &sim.Sim{Prop: "C14", P: profC04, NQuick: 300, NThor: 3000, FloorsQ: map[string]int{}}),
		"C15": one(&fn.C15{}, &sim.Sim{Prop: "C15", P: profC15, NQuick: 400, NThor: 5000, FloorsQ: map[string]int{"C15.sim-canary-lists-judged": 400}}, &sim.Sim{Prop: "C15", P: nested(profC15, 0.12), NQuick: 200, NThor: 2500, FloorsQ: map[string]int{}}, &sim.Sim{Prop: "C15", P: big(profC15), NQuick: 40, NThor: 400, FloorsQ: map[string]int{}}, &sim.C15Script{}),
		"C16": one(&fn.C16{}, &fn.C16Corpus{}, &fn.C16Fuzz{}, &sim.Sim{Prop: "C16", P: profC16, NQuick: 400, NThor: 5000, FloorsQ: map[string]int{}}, &sim.Sim{Prop: "C16", P: nested(profC16, 0.12), NQuick: 200, NThor: 2500, FloorsQ: map[string]int{}}),
		"C17": one(&sim.C17{}),
		"C18": one(&fn.C18{}, &sim.Sim{Prop: "C18", P: profC10, NQuick: 300, NThor: 4000, FloorsQ: map[string]int{"C18.sim-nodes-judged-at-fixpoint": 500}}),
		"C19": one(&sim.C19{}, &sim.Sim{Prop: "C19", P: nested(profC19, 0.15), NQuick: 400, NThor: 5000, FloorsQ: map[string]int{}}, &sim.Sim{Prop: "C19", P: profC19, NQuick: 200, NThor: 3000, FloorsQ: map[string]int{}}),
		"C20": one(&fn.C20{}, &fn.C20Scrape{}),
	}
}

func levelOf(prop string) string {
	if prop == "C11" {
		return "fault_enumeration"
	}
	return "exploration"
}

func crashIsViolation(prop string) bool {
	return prop == "C16" || prop == "C17" || prop == "C11"
}

// usesRaceBuild: C17 always runs in the -race build; the thorough tier of C01, C04 and C12 runs
// its simulations (C20: the real endpoint with its reflector goroutines) in the -race build too (the fan-out goroutines of real syncs are then under
// the race detector during every history).
func usesRaceBuild(prop, tier string) bool {
	if prop == "C17" {
		return true
	}
	return tier == "thorough" && (prop == "C01" || prop == "C04" || prop == "C12" || prop == "C20")
}
