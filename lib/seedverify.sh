#!/bin/bash
# lib/seedverify.sh <Cxx> [tag]  — confirm a sub-agent's seeded change independently in a fresh scratch
# worktree: patch applies, builds, existing tests pass, demo fails with / passes without the patch.
# Then stores it as /verif/seeded/S-<Cxx>[-tag]/ (patch.diff, demo_test.go, README.md, meta.json skeleton).
set -u
P=$1; TAG=${2:-}
SRC=/tmp/seeded-out/$P
ID=S-$P${TAG:+-$TAG}
export GOPROXY=off GOSUMDB=off GOTOOLCHAIN=local
WT=$(mktemp -d /tmp/seedverify.XXXXXX)
cleanup() { git -C /repo worktree remove --force "$WT" >/dev/null 2>&1; rm -rf "$WT"; }
trap cleanup EXIT
git -C /repo worktree add -q --detach "$WT" HEAD || exit 2
cd "$WT" || exit 2
DIR=$(grep -oE '(controllers|pkg|api|cmd)/[A-Za-z0-9_/.-]*' "$SRC/README.md" | grep -v '\.go' | head -1)
PKGDIR=${DEMO_DIR:-$DIR}
PKGDIR=${PKGDIR%/}
echo "demo package dir: $PKGDIR"
[ -d "$WT/$PKGDIR" ] || { echo "cannot determine demo dir (set DEMO_DIR)"; exit 2; }
cp "$SRC/demo_test.go" "$WT/$PKGDIR/zz_demo_test.go"
RUN=$(grep -oE 'Test[A-Za-z0-9_]*' "$SRC/demo_test.go" | grep -v '^Test$' | sort -u | paste -sd'|')
run_demo() { (cd "$WT" && if [[ "$PKGDIR" == api* ]]; then cd api && go test -count=1 ${RACE:-} ./${PKGDIR#api/}/ -run "$RUN" ; else go test -count=1 ${RACE:-} ./$PKGDIR/ -run "$RUN"; fi) > "$WT/demo.log" 2>&1; }
run_demo; rc0=$?
echo "demo WITHOUT patch: rc=$rc0"
git apply "$SRC/patch.diff" || { echo "PATCH DOES NOT APPLY"; exit 2; }
go build ./... || { echo "BUILD FAILS"; exit 2; }
run_demo; rc1=$?
echo "demo WITH patch: rc=$rc1"; grep -E "^(--- FAIL|FAIL|ok|panic)" "$WT/demo.log" | head -5
rm -f "$WT/$PKGDIR/zz_demo_test.go"
fails=$( (go test -vet=off -count=1 ./... 2>&1; cd api && go test -vet=off -count=1 ./... 2>&1) | grep -E "^(--- FAIL|FAIL)" | grep -v "TestAPIs" | grep -v "extendeddaemonset/controllers\s" | grep -v '^FAIL$')
echo "existing suite with patch: ${fails:-all pass (TestAPIs excepted)}"
if [ $rc0 -eq 0 ] && [ $rc1 -ne 0 ] && [ -z "$fails" ]; then
  mkdir -p /verif/seeded/$ID
  cp "$SRC/patch.diff" "$SRC/demo_test.go" "$SRC/README.md" /verif/seeded/$ID/
  echo "CONFIRMED -> /verif/seeded/$ID (demo dir $PKGDIR, run $RUN)"
  echo "$PKGDIR" > /verif/seeded/$ID/.demodir
else
  echo "NOT CONFIRMED"
fi
