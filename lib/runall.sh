#!/bin/bash
# developer helper: run every quick (or thorough) check and print one line each
TIER=${1:-quick}
for i in $(seq -w 1 20); do
  P=C$i
  S=$(date +%s)
  /verif/check $P $TIER > /tmp/runall-$P.log 2>&1; rc=$?
  E=$(( $(date +%s) - S ))
  echo "$P rc=$rc ${E}s $(grep -c '^VIOLATION' /tmp/runall-$P.log) viol $(grep -c '^KNOWN-FINDING' /tmp/runall-$P.log) known $(grep -c INCONCLUSIVE /tmp/runall-$P.log) inconcl | $(tail -1 /tmp/runall-$P.log | cut -c1-150)"
done
