#!/usr/bin/env python3
"""Regenerates /verif/MANIFEST.json from the table below (kept in one place so the
manifest stays valid and current)."""
import json, subprocess

CHECKS = {
 # id: (category, technique, level text, level note, design_ref)
 "C03": ("exploration", "runtime monitor: differential oracle over real ManageDeployment outputs (function-level engine, repeated for map order)",
         "Every multiset of the seven node classes for N<=4 (quick) / N<=5 (thorough) and seeded multisets up to N=12, times the maxUnavailable/maxPodSchedulerFailure lattice, each executed 12/24 times through the real ManageDeployment at a virtual instant; the budget, cap and unavailable-first rules are judged by an independent oracle. Held = no rule fired on the executions observed.",
         "Trusted: simapi double, the oracle's reading of 'available' (Ready) and of the stuck-node tolerance; map-order coverage is sampled by repetition.", "4/C03"),
}
PENDING = {}

def main():
    props = [json.loads(l) for l in open('/verif/properties.jsonl')]
    hooks = subprocess.run(['git','-C','/repo','log','--format=%H %s','--grep=^verif hooks'],capture_output=True,text=True).stdout.strip().splitlines()
    m = {
      "version": 1,
      "setup_cmd": "bash /verif/setup.sh",
      "hooks": {
        "guard": "verif (Go build tag)",
        "enable": "checks rsync /repo's working tree to a scratch copy, run the clock pass on the copy and build the harness with `go build -tags verif`; committed hooks are add-only files `export_verif.go` guarded by //go:build verif",
        "baseline_off_cmd": "for m in . api; do (cd /repo/$m && go test -vet=off -count=1 -timeout 25m ./...); done",
        "source_commits": [h.split()[0] for h in hooks],
        "add_only": True,
      },
      "engines": [
        {"name": "vh", "path": "/verif/harness", "serves_properties": sorted(CHECKS), "kind_free_text": "Go harness: simulated API server (simapi), real reconcilers, invocation-record monitors, function-level differential engines, race-detector engine"},
      ],
      "checks": [],
      "not_applicable": [],
      "notes": "Technique family: runtime monitoring and sanitizers. See DESIGN.md.",
    }
    for p in props:
        pid = p['id']
        if pid in CHECKS:
            cat, tech, text, note, ref = CHECKS[pid]
            m["checks"].append({
              "property_id": pid,
              "quick_cmd": f"/verif/check {pid} quick",
              "thorough_cmd": f"/verif/check {pid} thorough",
              "evidence_file": f"/verif/evidence/{pid}.json",
              "replay_cmd_template": "/verif/replay {path}",
              "engine": "vh",
              "level_claimed": {"category": cat, "text": text, "design_ref": "DESIGN.md section " + ref},
              "level_note": note,
              "technique": tech,
            })
        else:
            m["not_applicable"].append({"property_id": pid, "reason": PENDING.get(pid, "check not built yet (work in progress; see DESIGN.md section 4 for the plan)")})
    json.dump(m, open('/verif/MANIFEST.json','w'), indent=1)
    print("wrote MANIFEST.json:", len(m["checks"]), "checks,", len(m["not_applicable"]), "not claimed")

main()
