#!/usr/bin/env python3
"""Regenerates /verif/MANIFEST.json from the table below (kept in one place so the
manifest stays valid and current)."""
import json, subprocess

T = "Trusted: the API-server double (simapi), the kubelet/scheduler/GC model, the reference oracles (DESIGN.md section 3), the clock pass on the build copy; "
CHECKS = {
 "C01": ("exploration", "runtime monitors over invocation records (simulated API server, real reconcilers) + differential oracle on FilterAndMapPodsByNode",
   "Seeded hostile histories (duplicate pods by hand, Failed/Unknown/terminating/unscheduled pods, node taint/relabel/removal, canaries) in arbitrary fair reconcile orders; every pod create/delete of every replica-set sync is judged against the cluster state that sync read (eligibility, node free, once per node, duplicate resolution, ineligible clean-up, Unknown untouched); plus 20k generated layouts through the real FilterAndMapPodsByNode and a CheckNodeFitness differential. Held = no rule fired on the invocations observed, antecedent floors reached (every simulator engine also floors replica-set status writes and pod creates, so a run in which the controllers could not work is inconclusive).",
   T+"interleavings are sampled (schedule S = atomic reconciles in seeded fair orders, schedule N = reconciles of other controllers nested at the API calls of a running one), not enumerated; the thorough tier runs the same workload in a -race build.", "4/C01"),
 "C02": ("exploration", "bounded-progress monitor: convergence phase after generated histories, fixpoint predicate checked at quiescence",
   "Liveness restated as bounded progress: after a seeded hostile history (template edits, holds, node churn, misbehaving kubelet, partial rollouts, old-DaemonSet start state) the actors stop, the cooperative kubelet runs and a fixpoint (one Ready live-template pod per eligible node, nothing else, no further pod/RS writes for three rounds) must be reached within 12+4*N*(1+edits) rounds (canary wait durations are fast-forwarded, Failed-pod back-off emptied by a controller restart: waiting is not progress). A second engine (schedule E) replaces the round-robin by the repository's own watch handlers and a recording work queue: after one initial enqueue only watch events, requeues and error retries trigger reconciles, and the fixpoint must be reached by a virtual deadline.",
   T+"an unbounded 'eventually' is not decidable by observation; canaries whose replicas cannot be satisfied by the valid nodes are excluded (premise), counted in evidence.", "4/C02"),
 "C03": ("exploration", "differential oracle over real ManageDeployment outputs (exhaustive small multisets, repeated for map order) + budget monitor on every active-role sync of the simulator",
   "Every multiset of the seven node classes (unavailable pods are Ready=False or Ready=Unknown) for N<=4 (quick) / N<=5 (thorough) and seeded multisets up to N=12, times the maxUnavailable/maxPodSchedulerFailure lattice, each executed 12/24 times through the real ManageDeployment at a virtual instant, in half of the cases with selector-matched nodes the daemonset does not target; budget, cap and unavailable-first judged by an independent oracle. Two simulator engines (schedules S and N) judge budget and cap on every real active-role sync of rolling-update-heavy histories with tainted and canary-reserved nodes.",
   T+"the oracle's reading of 'available' (Ready) and of the stuck-node tolerance; map-order coverage is sampled by repetition.", "4/C03"),
 "C04": ("exploration", "runtime monitors over invocation records during generated canary histories",
   "Canary-heavy seeded histories (second template change during a canary, replicas as number/percent, node churn, pause/unpause/fail/validate commands, all reconcile orders): every pod create by a non-active up-to-date replica set must target a node of status.canary.nodes as read; the active replica set must not create/delete on canary nodes; canary list growth bounded by the resolved replicas; canary label present on canary pods while the canary runs (nobody but the canary replica set itself may take it away: every applied pod patch is judged from its stored before/after images) and gone at the post-promotion fixpoint; a steady-state phase (manual validation) checks that canary nodes run the new template, every other eligible node keeps a Ready pod of the active template, and nothing of the new template leaks outside status.canary.nodes; schedule N nests other reconciles inside a running one.",
   T+"role is derived from the EDS status the sync read.", "4/C04"),
 "C05": ("exploration", "exhaustive lattice (12960 prepared stores, one real EDS Reconcile each at an exact virtual instant) + promotion monitor on every EDS reconcile of the simulator",
   "The full product of the quantifier (strategy x age vs duration x noRestartsDuration x last restart x pause source x unpause x canary-valid x failed x active replica set present / terminating behind a finalizer / absent) is enumerated; a switch of status.activeReplicaSet is judged against promotionAllowed (must / must-not / either at the stated equalities).",
   T+"the equality points (age = duration, since-restart = noRestartsDuration) are not judged.", "4/C05"),
 "C06": ("exploration", "differential oracle (canaryVerdict) over the real manageCanaryStatus via verif shim; second call for stickiness; failed-canary-creates-nothing monitor on real canary syncs of the simulator; store-level stickiness monitor (no write ever takes Canary-Failed away from a replica set that is still the canary) under atomic and nested schedules",
   "200k (quick) / 2.4M (thorough) seeded canary situations, boundary-complete per dimension (restart counts at/around both thresholds, all 11 cannot-start reasons, ContainerCreating, unrelated reasons, start age before/at/after maxSlowStartDuration, spans and ages at/around their limits, enabled flags, previous conditions, annotations); further calls on the produced status check that a failure stays and that the first observed restart is not forgotten by a sync without restarting pods.",
   T+"Paused is don't-care once failed ('otherwise' in the statement).", "4/C06"),
 "C07": ("exploration", "runtime monitors on EDS reconciles that read a Canary-Failed replica set + rollback fixpoint and retention phase; fault points are covered by C11's failure-and-rollback scenario",
   "Seeded histories ending in failure (restart storms, kubectl-eds canary fail, while paused or not, before/after the duration elapsed): the rollback writes (spec restored, status.canary cleared, active unchanged) are judged on the invocation, retention (>= 2 min, zero counters) on every delete of a failed replica set, the failure mark never taken away from a replica set that is still the canary (also when kubectl-eds canary fail lands inside a running sync), nodes restored and failed RS collected at the convergence fixpoint; a convergence failure after a canary failure is canary-pods-replaced (templates of the history may tolerate a taint the others do not, so a failed canary can sit on a node the active template cannot use).",
   T+"a replica set both failed and explicitly validated is an 'either' corner (C05 allows promotion).", "4/C07"),
 "C08": ("exploration", "runtime monitors over invocation records with pause/freeze/canary-pause toggling + status.state check on every EDS status write",
   "Hold-heavy seeded histories (annotations toggled directly and through the real kubectl-eds bodies, new nodes joining): an active-role sync that read rolling-update-paused=true issues no update deletion, with rollout-frozen=true neither creates nor update-deletes; a canary-role sync that read a paused canary creates nothing; state equals the documented function; resumption is part of the convergence phase. Scripted hold scenarios (paused, frozen, both, canary paused before/after its pods; seeded sizes, modes and orders) judge what must still happen while held (pods for nodes that join while only paused), what must not, and resumption within the round bound after the release.",
   T+"'as read' = annotations on the EDS object returned to that sync.", "4/C08"),
 "C09": ("exploration", "differential oracle (rampBound) over calculateMaxCreation via shim and over ManageDeployment's create decisions + spacing monitor in the simulator",
   "Product of elapsed x interval x additive increase x maxParallelPodCreation x nodes at exact instants; creates of a sync bounded by rampBound measured from the Active condition of the status it was given; spacing of syncs that create or delete pods (clean-up deletions included) >= reconcileFrequency-1s, at most maxUnavailable update deletions per sync the creation ramp (measured from the Active condition the sync read) and the transition time recorded whenever a status write turns Active true, judged on every simulated history (incl. failing pod calls and bursts of reconciles).",
   T+"non-positive intervals belong to C16.", "4/C09"),
 "C10": ("exploration", "differential oracle over CreatePodFromDaemonSetReplicaSet + compareCurrentPodWithNewPod round trip and single perturbations; input replica set compared with a deep copy after every call; monitors on real syncs of simulated histories with node override annotations and ExtendedDaemonsetSettings that change while pods exist: resources precedence of every created pod against what the sync read, no update deletion of an own pod whose creation inputs read the same, no outdated pod left at the fixpoint, labels/namespace",
   "20k (quick) / 200k (thorough) seeded (template, node, setting, mode) tuples: pinning in every affinity term (also read back with the controller's own GetNodeNameFromPod), owner, labels, hash, default tolerations, resources precedence, wire round trip judged up to date, every single perturbation judged outdated. Simulator engines (schedules S and N): overrides and settings created, edited and removed by the user, the setting controller interleaved, several pods per sync; rules resources-precedence, spurious-replace, outdated-recognised (fixpoint).",
   T+"a malformed annotation is expected to fall through to setting/template; its being reported is not part of the statement.", "4/C10"),
 "C11": ("fault_enumeration", "fault injection at the client seam: every API call index x {reject, lost reply, stop before, stop after}; safety monitors at every step (per-invocation rules against what the reconcile read, a store-level one-live-pod-per-node invariant compared with the failure-free run, and no create/delete after a refused read), final abstract state compared with the failure-free run",
   "Ten corpus scenarios; the failure-free run is recorded, then re-run once per (call index, fault kind); stop faults void the rest of the invocation and rebuild all reconcilers with empty in-memory state; thorough adds 20k seeded fault pairs.",
   T+"process stop is emulated by voiding later calls of the invocation rather than killing goroutines.", "4/C11"),
 "C12": ("exploration", "runtime monitors: every write of every invocation must target an object of the EDS being reconciled; foreign objects never counted/adopted",
   "Two or three ExtendedDaemonSets (same/different names and namespaces, also names that only differ after the 63rd character), a look-alike pod of a StatefulSet named like the old DaemonSet, unrelated pods and DaemonSets with overlapping labels, rollouts and canaries in all interleavings; ownership judged per write from the invocation's own reads; each ExtendedDaemonSet also has its own node override annotations and ExtendedDaemonsetSettings, and a created pod whose resources came from those of another ExtendedDaemonSet is a violation (foreign-object-influence).",
   T+"ownership = namespace + name label / owner reference as stated.", "4/C12"),
 "C13": ("exploration", "runtime monitors on replica-set creates/deletes and PodTemplate reconciles during edit-heavy histories",
   "Edit sequences over {A,B,C,+selector variants, +variants that differ only in the order of the env list} incl. A-B-A and edits during canaries, with rejected and lost replica-set creates/deletes, all reconcile orders: no second replica set for a template while one exists, created RS faithful to spec.template with a consistent hash chain down to pods, never delete the active/up-to-date RS, delete only with zero counters as read, PodTemplate equals spec.template as a whole (no leftover of an earlier template) and carries the RS hash.",
   T+"'active' for the never-delete rule is the replica set active after the reconcile's own decision.", "4/C13"),
 "C14": ("exploration", "differential oracle (expectedEDSStatus) on prepared stores + on every EDS status write of the simulator + counts at fixpoints",
   "16k prepared stores (up to three replica sets, roles, conditions, annotations) and every simulated EDS status write compared with the documented status function; 0<=available<=ready<=current<=desired on active/canary RS status writes and desired of the active replica set = the nodes it targets as read; at quiescence desired/current/ready/available/upToDate equal the counts over nodes and pods.",
   T+"status.reason is judged only where the documented function determines it (reset when the canary is neither paused nor failed).", "4/C14"),
 "C15": ("exploration", "differential oracle over canary node selection through the real EDS Reconcile, with node churn and a second Reconcile; distinctness monitor on every canary status written in simulated histories with heavy node churn",
   "9.6k (quick) / 96k (thorough) seeded node populations x replicas (int, percent) x selector x anti-affinity keys x previous lists; distinct, valid, stable, count max/min, error only when too few valid nodes, least-restarts preference, spreading.",
   T+"one open known finding (stale canary nodes) is listed in known_findings.json.", "4/C15"),
 "C16": ("exploration", "exhaustive product lattices through Default/IsDefaulted/Validate + seeded specs driven through all reconcilers; worker-process crash attribution; both tiers replay the committed fuzz corpus (444 coverage-increasing inputs); thorough tier adds Go native coverage-guided fuzzing of a byte-encoded strategy under the same oracles",
   "127k lattice points (full product of the canary key fields and of the rolling-update fields) and 600 (quick) / 6000 (thorough) life-cycle scenarios (deploy, template change, canary, promotion) with hostile specs; any panic, non-idempotence, lost user value or accepted-but-must-reject spec is a violation. Simulator engines (atomic and nested schedules) add histories in which the user rewrites the strategy while rollouts and canaries run (canary block removed or added, original undefaulted manifest re-applied): any reconcile panic is a violation.",
   T+"the fuzzing engine (thorough tier, 400000 executions) uses the Go fuzzer's own unseedable random source, so that part is not a function of VERIF_SEED; a failing input is stored in the replay file.", "4/C16"),
 "C17": ("exploration", "Go race detector (-race build, halt_on_error=0, report blocks counted and de-duplicated) + conservation-of-errors monitor with unique error ids + condition reflection on real syncs",
   "Helper batches 2..64 x failure plans with jitter at the client seam (nodes with settings, override annotations, and - without scheme - malformed overrides that make pod generation itself fail; a batch that does not return is a violation); real replica-set syncs (active and canary role) with failing pod calls and, in a third of them, a pod removed by someone else just before its Delete: the sync must report the failure and write the condition; the four reconcilers, kubelet and user concurrently on one store with 0/10/100% failing pod calls.",
   T+"the Go race detector only sees the interleavings that occur.", "4/C17"),
 "C18": ("exploration", "differential oracle over the real setting reconciler in every reconcile order of each population + observation of the settings a replica-set sync attaches; at fixpoints of simulated histories with settings: at most one valid setting per node, none valid without a reference, created pods only influenced by valid settings",
   "1.5k (quick) / 12k (thorough) populations of <=4 settings x <=4 nodes, all <=24 orders, two passes plus a pass in which the node listing of one reconcile is refused (that reconcile must not publish valid) and a recovery pass: mutual exclusion, malformed in error with text, lone well-formed valid, only valid settings influence created pods (settings that are not valid - never reconciled, or in error with an empty text - select every node and sort first).",
   T+"settings of other namespaces never conflict.", "4/C18"),
 "C19": ("exploration", "whole-store diff monitor around the real kubectl-eds command bodies on every reachable state + interpretation by following reconciles; command-heavy simulated histories with commands landing inside running reconciles (nested schedule): a successful canary fail is never lost, and holds released through unpause-rolling-update / unfreeze-rollout are obeyed (convergence)",
   "Eight reachable states x command sequences of length <=3 (all 584 per state in thorough) x optional template edit: documented change only, refusal without change when the precondition fails, no refusal of the command the situation calls for when the precondition holds, pause -> Canary Paused, unpause -> Canary, validate promotes exactly the then-canary RS, fail -> rollback.",
   T+"commands run through their run() bodies with an injected client (kubeconfig handling is not exercised).", "4/C19"),
 "C20": ("exploration", "differential oracle over every metric family generator (verif shim) and BuildInfoLabels",
   "12k (quick) / 120k (thorough) seeded objects: every gauge equals its status field; objects carry UID and generation and are relabelled between two generations; the label-info series equals the multiset {(sanitise(key), value)} incl. dotted/slashed/dashed, colliding and empty maps; as in the metrics store, all families of an object are generated before any series is judged, and the series are judged again after the families of another object were generated.",
   T+"the sanitising rule is re-stated as [^a-zA-Z0-9_] -> _.", "4/C20"),
}
PENDING = {}

def main():
    props = [json.loads(l) for l in open('/verif/properties.jsonl')]
    hooks = subprocess.run(['git','-C','/repo','log','--format=%H %s','--grep=^verif hooks'],capture_output=True,text=True).stdout.strip().splitlines()
    m = {
      "version": 1,
      "setup_cmd": "bash /verif/setup.sh",
      "hooks": {
        "guard": "verif (Go build tag)",
        "enable": "checks rsync /repo's working tree to a scratch copy, run the clock pass on the copy and build the harness with `go build -tags verif`; committed hooks are add-only files `export_verif.go` guarded by //go:build verif",
        "baseline_off_cmd": "for m in . api; do (cd /repo/$m && go test -vet=off -count=1 -timeout 25m ./...); done",
        "source_commits": [h.split()[0] for h in hooks],
        "add_only": True,
      },
      "engines": [
        {"name": "vh", "path": "/verif/harness", "serves_properties": sorted(CHECKS), "kind_free_text": "Go harness: simulated API server (simapi), real reconcilers, invocation-record monitors, function-level differential engines, race-detector engine"},
      ],
      "checks": [],
      "not_applicable": [],
      "notes": "Technique family: runtime monitoring and sanitizers. See DESIGN.md.",
    }
    for p in props:
        pid = p['id']
        if pid in CHECKS:
            cat, tech, text, note, ref = CHECKS[pid]
            m["checks"].append({
              "property_id": pid,
              "quick_cmd": f"/verif/check {pid} quick",
              "thorough_cmd": f"/verif/check {pid} thorough",
              "evidence_file": f"/verif/evidence/{pid}.json",
              "replay_cmd_template": "/verif/replay {path}",
              "engine": "vh",
              "level_claimed": {"category": cat, "text": text, "design_ref": "DESIGN.md section " + ref},
              "level_note": note,
              "technique": tech,
            })
        else:
            m["not_applicable"].append({"property_id": pid, "reason": PENDING.get(pid, "check not built yet (work in progress; see DESIGN.md section 4 for the plan)")})
    json.dump(m, open('/verif/MANIFEST.json','w'), indent=1)
    print("wrote MANIFEST.json:", len(m["checks"]), "checks,", len(m["not_applicable"]), "not claimed")

main()
