#!/bin/bash
# lib/sweep.sh <from-seed> <to-seed> [tier] [props...] : runs the checks at several seeds on the unchanged tree and
# prints one line per (property, seed) that did not exit 0. Relocatable (works from a vp run snapshot).
ROOT=$(dirname "$(dirname "$(readlink -f "$0")")")
FROM=$1; TO=$2; TIER=${3:-quick}; shift 3 2>/dev/null
PROPS=${*:-$(seq -f 'C%02g' 1 20)}
bad=0
for s in $(seq $FROM $TO); do
  for P in $PROPS; do
    out=$(VERIF_SEED=$s "$ROOT/check" $P $TIER 2>&1); rc=$?
    if [ $rc -ne 0 ]; then bad=$((bad+1)); echo "NONZERO $P seed=$s rc=$rc"; echo "$out" | grep -E "VIOLATION|rule=|INCONCLUSIVE" | head -6; fi
  done
  echo "seed $s done ($(date +%T))"
done
echo "sweep finished: $bad non-zero"
