#!/usr/bin/env python3
"""lib/seedmeta.py <seed-id> <property> <detected_by comma list> <needs...> : writes meta.json"""
import json,sys,os
sid,prop,det=sys.argv[1:4]; needs=' '.join(sys.argv[4:])
d=f'/verif/seeded/{sid}'
demodir=open(d+'/.demodir').read().strip() if os.path.exists(d+'/.demodir') else ''
meta={"id":sid,"property":prop,"origin":"independent sub-agent given only the property text and a scratch worktree","needs":needs,
 "confirmed":"lib/seedverify.sh: patch applies on the repaired tree, builds, existing suite passes, demo fails with / passes without the patch (demo_test.go placed in "+demodir+")",
 "checks_run":"lib/seedtest.sh seeded/"+sid,"detected_by":[x for x in det.split(',') if x]}
json.dump(meta,open(d+'/meta.json','w'),indent=1)
print(meta)
