#!/bin/bash
# lib/seedmatrix.sh [seed dirs...] : runs every seeded change (default: all of seeded/) through the quick check of
# its own property with lib/seedtest.sh and prints one line per seed: DETECTED / MISSED.
# S-C14 and S-C04g (neutralised by repository fixes) and S-C02k, S-C10k, S-C06s (not detected, see their meta.json) are expected to be MISSED.
# S-C20h (a race between two goroutines, seen through the values it corrupts) is detected in most runs, not in all (see its meta.json).
cd "$(dirname "$(dirname "$(readlink -f "$0")")")" || exit 2
DIRS=${*:-seeded/*}
miss=0
for d in $DIRS; do
  [ -f "$d/patch.diff" ] || continue
  out=$(lib/seedtest.sh "$d" 2>&1)
  if echo "$out" | grep -q "rc=1"; then
    echo "DETECTED $(basename $d): $(echo "$out" | grep 'rule=' | sed 's/^ *[0-9]* *//' | cut -c1-90 | head -3 | paste -sd';')"
  else
    miss=$((miss+1)); echo "MISSED   $(basename $d): $(echo "$out" | tail -2 | paste -sd' ')"
  fi
done
echo "matrix finished: $miss missed"
