#!/bin/bash
# developer helper: build once into /tmp/vhdev (not used by registered checks)
source /verif/lib/build.sh
vh_build /tmp/vhdev ${1:-} && echo built /tmp/vhdev/vh
