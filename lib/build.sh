#!/bin/bash
# Build pipeline shared by every check (DESIGN.md 2.1).
#   vh_build <scratchdir> [race]
# 1. rsync /repo's current working tree to <scratchdir>/repo
# 2. clock pass on the copy (time.Now/Since/Until, metav1.Now -> pkg/verifclock)
# 3. go build -tags verif -trimpath [-race] of /verif/harness against the copy
# Leaves <scratchdir>/vh (and <scratchdir>/vh-race when asked).
# Exit codes: 0 ok, 3 build failed (the caller reports "inconclusive", never a VIOLATION).

export GOFLAGS=-mod=mod GOPROXY=off GOSUMDB=off GOTOOLCHAIN=local GOWORK=off
VERIF_ROOT=${VERIF_ROOT:-/verif}
REPO=${VERIF_REPO:-/repo}
MIN_CLOCK_SITES=10

vh_build() {
  local scr=$1 race=${2:-}
  mkdir -p "$scr" || return 3
  rsync -a --delete --exclude /.git --exclude /bundle --exclude /chart --exclude /config \
        --exclude /docs --exclude /examples --exclude /hack --exclude /test \
        "$REPO"/ "$scr/repo/" || return 3
  # clock pass
  (cd "$VERIF_ROOT/tools/clockpass" && GOFLAGS= go build -trimpath -o "$scr/clockpass" .) || return 3
  mkdir -p "$scr/repo/pkg/verifclock"
  cp "$VERIF_ROOT/lib/verifclock.go.txt" "$scr/repo/pkg/verifclock/verifclock.go"
  "$scr/clockpass" "$scr/repo" > "$scr/clockpass.log" || { cat "$scr/clockpass.log"; return 3; }
  local n
  n=$(awk '/^total/{print $2}' "$scr/clockpass.log")
  if [ -z "$n" ] || [ "$n" -lt "$MIN_CLOCK_SITES" ]; then
    echo "INCONCLUSIVE: clock pass rewrote only ${n:-0} sites (expected >= $MIN_CLOCK_SITES)"; return 3
  fi
  # a direct wall-clock read left in controller packages would make virtual time unsound
  if grep -rnE '\btime\.(Now|Since|Until)\(' "$scr/repo/controllers" "$scr/repo/pkg/controller" "$scr/repo/api" \
       --include='*.go' --exclude='*_test.go' | grep -v verifclock | grep -q .; then
    echo "INCONCLUSIVE: direct wall-clock read left after clock pass"; return 3
  fi
  export VH_CLOCK_SITES=$n
  # module file pointing at the copy
  sed -e "s#=> /repo#=> $scr/repo#" "$VERIF_ROOT/harness/go.mod" > "$scr/go.mod"
  cp "$VERIF_ROOT/harness/go.sum" "$scr/go.sum"
  (cd "$VERIF_ROOT/harness" && go build -modfile="$scr/go.mod" -tags verif -trimpath -o "$scr/vh" ./cmd/vh) || return 3
  if [ -n "$race" ]; then
    (cd "$VERIF_ROOT/harness" && go build -race -modfile="$scr/go.mod" -tags verif -trimpath -o "$scr/vh-race" ./cmd/vh) || return 3
  fi
  return 0
}
