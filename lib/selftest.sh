#!/bin/bash
# lib/selftest.sh : differential self-test of the API-server double (harness/simapi/diff_test.go): 300 seeded
# operation sequences are applied to simapi and to controller-runtime's fake client; error classes, returned
# objects and stored state must agree after every operation (known, deliberate differences are listed in the
# test). Guards the harness; decides no property.
ROOT=$(dirname "$(dirname "$(readlink -f "$0")")")
export VERIF_ROOT=$ROOT
source "$ROOT/lib/build.sh"
SCR=$(mktemp -d "${TMPDIR:-/tmp}/vh-selftest.XXXXXX") || exit 2
trap 'rm -rf "$SCR"' EXIT
vh_build "$SCR" > "$SCR/build.log" 2>&1 || { cat "$SCR/build.log"; exit 2; }
cd "$ROOT/harness" && go test -modfile="$SCR/go.mod" -tags verif -count=1 ./simapi/
