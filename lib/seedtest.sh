#!/bin/bash
# lib/seedtest.sh <seeded-dir> [PROP ...]  — tries a seeded change against the checks WITHOUT touching
# /repo's working tree: a scratch worktree of /repo's HEAD gets <seeded-dir>/patch.diff, the checks run
# with VERIF_REPO pointing at it, evidence and replays go to a scratch directory (printed), and the
# worktree is removed afterwards. (Equivalent to `git -C /repo apply`, run, `git -C /repo checkout -- .`,
# but safe while a sweep is reading /repo.)
set -u
D=$(cd "$1" && pwd); shift
PROPS="$*"
[ -z "$PROPS" ] && PROPS=$(python3 -c "import json,sys; print(json.load(open('$D/meta.json'))['property'])")
WT=$(mktemp -d /tmp/seedtest.XXXXXX)
OUTD=$(mktemp -d /tmp/seedtest-out.XXXXXX)
cleanup() { git -C /repo worktree remove --force "$WT" >/dev/null 2>&1; rm -rf "$WT"; [ -n "${KEEP_OUT:-}" ] || rm -rf "$OUTD"; }
trap cleanup EXIT
git -C /repo worktree add -q --detach "$WT" HEAD || exit 2
git -C "$WT" apply "$D/patch.diff" || { echo "PATCH DOES NOT APPLY"; exit 2; }
(cd "$WT" && GOPROXY=off GOSUMDB=off GOTOOLCHAIN=local go build ./... ) || { echo "PATCHED TREE DOES NOT BUILD"; exit 2; }
for P in $PROPS; do
  out=$(VERIF_REPO="$WT" VERIF_OUT="$OUTD" VERIF_SEED=${VERIF_SEED:-1} /verif/check $P ${TIER:-quick} 2>&1); rc=$?
  echo "== $P rc=$rc: $(echo "$out" | grep -c '^VIOLATION') violation line(s); $(echo "$out" | tail -1)"
  echo "$out" | grep -A1 '^VIOLATION' | grep 'rule=' | sed 's/^ */     /' | sort | uniq -c | head -8
done
if [ -n "${KEEP_OUT:-}" ]; then echo "evidence and replays kept in $OUTD"; fi
