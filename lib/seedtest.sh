#!/bin/bash
# lib/seedtest.sh <seeded-dir> [PROP ...]  — applies <seeded-dir>/patch.diff to /repo, runs the quick
# checks of the given properties (default: the one in meta.json), then restores /repo.
set -u
D=$(cd "$1" && pwd); shift
PROPS="$*"
[ -z "$PROPS" ] && PROPS=$(python3 -c "import json,sys; print(json.load(open('$D/meta.json'))['property'])")
cd /repo || exit 2
if [ -n "$(git status --porcelain)" ]; then echo "REFUSING: /repo has local changes"; exit 2; fi
restore() { git -C /repo checkout -q -- . ; git -C /repo clean -fdq -- controllers pkg api cmd >/dev/null 2>&1; }
trap restore EXIT
git apply "$D/patch.diff" || { echo "PATCH DOES NOT APPLY"; exit 2; }
(go build ./... ) || { echo "PATCHED TREE DOES NOT BUILD"; exit 2; }
for P in $PROPS; do
  out=$(VERIF_SEED=${VERIF_SEED:-1} /verif/check $P ${TIER:-quick} 2>&1); rc=$?
  echo "== $P rc=$rc: $(echo "$out" | grep -c '^VIOLATION') violation line(s); $(echo "$out" | tail -1)"
  echo "$out" | grep -A1 '^VIOLATION' | grep 'rule=' | sed 's/^ */     /' | sort | uniq -c | head -8
done
